import sys
from vf.runner import worker_main

if __name__ == "__main__":
    worker_main(sys.argv[1], sys.argv[2], sys.argv[3])
