"""Deterministic oracles over a simulation Trace (vf.simrun) and the reader's view of the input files.

Nothing here imports flumine.  Each oracle adds violations / counters / distinct keys to an `Out`.
"""
import collections
import itertools

LIVE = {"PENDING", "CANCELLING", "UPDATING", "REPLACING", "EXECUTABLE"}
DONE = {"EXECUTION_COMPLETE", "EXPIRED", "VIOLATION"}
INFLIGHT = {"CANCELLING", "UPDATING", "REPLACING"}

ALLOWED = {
    (None, "PENDING"),
    (None, "VIOLATION"),
    ("PENDING", "EXECUTABLE"),
    ("PENDING", "EXECUTION_COMPLETE"),
    ("PENDING", "EXPIRED"),
    ("EXECUTABLE", "CANCELLING"),
    ("EXECUTABLE", "UPDATING"),
    ("EXECUTABLE", "REPLACING"),
    ("EXECUTABLE", "EXECUTION_COMPLETE"),
    ("EXECUTABLE", "EXPIRED"),
    ("CANCELLING", "EXECUTABLE"),
    ("CANCELLING", "EXECUTION_COMPLETE"),
    ("UPDATING", "EXECUTABLE"),
    ("UPDATING", "EXECUTION_COMPLETE"),
    ("REPLACING", "EXECUTABLE"),
    ("REPLACING", "EXECUTION_COMPLETE"),
}
# idempotent re-assertions of the same status are not transitions (a refused order that is refused again stays VIOLATION)
SELF_LOOPS = {("EXECUTABLE", "EXECUTABLE"), ("EXECUTION_COMPLETE", "EXECUTION_COMPLETE"), ("VIOLATION", "VIOLATION")}


class Out:
    def __init__(self, prop):
        self.prop = prop
        self.violations = []
        self.counters = collections.Counter()
        self.distinct = set()

    def v(self, rule, tags=None, **detail):
        self.violations.append({"property": self.prop, "rule": rule, "tags": dict(tags or {}), "detail": detail})

    def c(self, name, n=1):
        self.counters[name] += n

    def rule(self, name, n=1):
        self.counters["rule_" + name] += n

    def d(self, key):
        self.distinct.add(key if isinstance(key, str) else repr(key))

    def result(self, **extra):
        r = {"violations": self.violations, "counters": dict(self.counters), "distinct": sorted(self.distinct)}
        r.update(extra)
        return r


def abort_violation(tr, out):
    """An exception escaping framework.run() is an observation of its own (rule handler-raised)."""
    if tr.abort:
        stack = tr.abort["stack"]
        out.v("handler-raised", {"exc": tr.abort["type"], "where": stack[-1] if stack else "?", "via": next((s for s in reversed(stack) if s.startswith("execute_")), "-")}, abort=tr.abort)
        return True
    return False


# -------------------------------------------------------------------------------------------
# root causes (cascades): tag objects corrupted by the C02 / C03 defects so that downstream rules can
# carry the marker in their signature
# -------------------------------------------------------------------------------------------


def root_causes(tr):
    tags = collections.defaultdict(set)
    seen_done = {}
    for e in tr.status:
        o = e["o"]
        if e["new"] in LIVE and seen_done.get(o):
            tags[o].add("reopened")
        if e["new"] in DONE and e["prev"] is not None:
            seen_done[o] = True
        if e["new"] == "VIOLATION" and e["prev"] in LIVE:
            tags[o].add("refused-live")
    return tags


def cause_of(tags, *okeys):
    for k in okeys:
        if k in tags:
            return "+".join(sorted(tags[k]))
    return "-"


# -------------------------------------------------------------------------------------------
# C03 lifecycle
# -------------------------------------------------------------------------------------------


def removal_updates(snaps):
    """[(line index, key, factor)] for every runner that turns REMOVED in `snaps` (reader view)."""
    out = []
    prev = {}
    for i, s in enumerate(snaps):
        for k, r in s["runners"].items():
            if r["status"] == "REMOVED" and prev.get(k) != "REMOVED":
                out.append((i, k, r["af"]))
            prev[k] = r["status"]
    return out


def c03_lifecycle(tr, out, snaps_by_market, exec_class="Simulated"):
    per = collections.defaultdict(list)
    for e in tr.status:
        per[e["o"]].append(e)
    sent = set()
    sent_seq = {}
    for p in tr.packages:
        if p["kind"] == "PLACE":
            sent.update(p["orders"])
            for o_ in p["orders"]:
                sent_seq[o_] = min(sent_seq.get(o_, p["seq"]), p["seq"])
    for e in tr.effects:
        sent.update(e["orders"])
        for o_ in e["orders"]:
            sent_seq[o_] = min(sent_seq.get(o_, e["seq"]), e["seq"])
    for o, evs in per.items():
        done = False
        path = []
        for e in evs:
            tr_ = (e["prev"], e["new"])
            path.append(e["new"])
            out.rule("transition")
            if tr_ in SELF_LOOPS:
                continue
            was_sent = sent_seq.get(o, float("inf")) < e["seq"]
            # an order that the controls refused (never sent) may be offered again: VIOLATION -> PENDING
            reoffer = tr_ == ("VIOLATION", "PENDING") and not was_sent
            if tr_ not in ALLOWED and not reoffer:
                out.v("illegal-transition", {"prev": e["prev"], "new": e["new"], "caller": e["caller"], "exec": exec_class}, order=o, events=evs)
            if done and e["new"] in LIVE and was_sent:
                out.v("live-after-complete", {"new": e["new"], "caller": e["caller"], "exec": exec_class}, order=o, events=evs)
            if e["new"] in DONE and e["prev"] is not None and (was_sent or e["new"] != "VIOLATION"):
                done = True
        out.d("path:" + ">".join(x[:4] for x in path))
        # status_log at the end equals the hooked sequence
        order = tr.orders[o]
        log = [s.name for s in order.status_log]
        if log != [e["new"] for e in evs]:
            out.v("status-log-mismatch", {"exec": exec_class}, order=o, log=log, hooked=[e["new"] for e in evs])
        out.rule("status-log")
    # matched size frozen after completion (except runner removal, which C09 requires)
    removed_at = {}
    for mid, snaps in snaps_by_market.items():
        for i, k, af in removal_updates(snaps):
            removed_at.setdefault((mid, k), snaps[i]["pt"])
    smk = "sm" if exec_class in ("Simulated", "Paper") else "o_sm"  # live orders report the exchange's matched size
    for o, ss in tr.samples.items():
        frozen = None
        for s in ss:
            if frozen is not None and abs((s[smk] or 0.0) - frozen) > 1e-9 and o in sent:
                rk = (s["market"], tuple(s["sel"]))
                if rk in removed_at:
                    frozen = s[smk] or 0.0
                    continue
                out.v("matched-changed-after-complete", {"exec": exec_class}, order=o, was=frozen, now=s[smk], tick=s["tick"])
                frozen = s[smk] or 0.0
            if s["complete"] and s["status"] != "VIOLATION" and frozen is None:
                frozen = s[smk] or 0.0
            out.rule("frozen-matched")
    # at most one operation per order is outstanding: an accepted request is executed once
    nreq = collections.Counter((r["o"], r["kind"]) for r in tr.requests if r.get("result") is True and (r["kind"] != "PLACE" or r["execute"]))
    seen_pkg = set()
    neff = collections.Counter()
    for e in tr.effects:
        for o, pre in zip(e["orders"], e["pre"]):
            # (a retry after a transport error re-executes the SAME package: counted once)
            if pre != "VIOLATION" and (e["pid"], o) not in seen_pkg:
                seen_pkg.add((e["pid"], o))
                neff[(o, e["kind"])] += 1
    for key, n in neff.items():
        out.rule("one-operation")
        if n > nreq.get(key, 0):
            out.v("operation-executed-more-often-than-requested", {"kind": key[1], "exec": exec_class}, order=key[0], executed=n, requested=nreq.get(key, 0))
    # request guards
    for r in tr.requests:
        if r["kind"] == "PLACE" or r["before"] is None:
            continue
        b = r["before"]
        o = tr.orders[r["o"]]
        otype = type(o.order_type).__name__
        compatible = otype in ("LimitOrder", "BetdaqLimitOrder") or (r["kind"] == "REPLACE" and otype == "LimitOnCloseOrder")
        guard_ok = b["status"] == "EXECUTABLE" and b["bet_id"] is not None and compatible
        out.rule("request-guard")
        out.d("guard:%s:%s:%s:%s" % (r["kind"], b["status"], otype, "ok" if r.get("result") else r.get("exc", "refused")))
        if r.get("result") is True and not guard_ok:  # (force skips the controls, never the order's own guards)
            out.v("request-accepted-in-wrong-state", {"kind": r["kind"], "status": b["status"], "otype": otype, "exec": exec_class}, request=r)
        if r.get("exc") in ("OrderUpdateError",):
            if not same_view(b, r["after"]):
                out.v("rejected-request-side-effect", {"kind": r["kind"], "status": b["status"], "exec": exec_class}, request=r, diff=view_diff(b, r["after"]))
            out.rule("rejected-no-side-effect")


def same_view(a, b):
    return a == b


def view_diff(a, b):
    return {k: (a.get(k), b.get(k)) for k in set(a) | set(b) if a.get(k) != b.get(k)}


# -------------------------------------------------------------------------------------------
# C04 size conservation
# -------------------------------------------------------------------------------------------

TOL = 0.006


def c04_conservation(tr, out, snaps_by_market, tags):
    # a replacement only moves size: the new order asks for exactly what the replace took out of the old order's remainder
    for rp in getattr(tr, "replacements", ()):
        out.rule("replace-moves-size")
        if abs(rp["size"] - rp["moved"]) > TOL:
            out.v("replacement-size-differs-from-size-moved", {"direction": "more" if rp["size"] > rp["moved"] else "less"}, replacement=rp)
    requested = {}
    for r in tr.requests:
        if r["kind"] == "PLACE" and r["o"] not in requested and r["before"] is not None:
            requested[r["o"]] = r["before"]["size"]
    removed_pt = {}
    for mid, snaps in snaps_by_market.items():
        for i, k, af in removal_updates(snaps):
            removed_pt.setdefault((mid, k), snaps[i]["pt"])
    for o, ss in tr.samples.items():
        if not ss or ss[0]["otype"] != "LIMIT":
            continue
        req = requested.get(o)
        prev = None
        cause = cause_of(tags, o)
        for s in ss:
            out.rule("sum")
            fs = round(sum(f[2] for f in s["frags"]), 6)
            sp_lay = s["side"] == "LAY" and s["persistence"] == "MARKET_ON_CLOSE"
            where = {"phase": "callback" if s["phase"] != "mw" else "mw", "cause": cause}
            if abs(fs - s["sm"]) > TOL:
                out.v("fragments-vs-matched", where, order=o, sample=s)
            if req is not None and s["size"] != req:
                out.v("requested-size-changed", where, order=o, requested=req, sample=s)
            total = fs + s["srem"] + s["sc"] + s["sl"] + s["sv"]
            if abs(total - (req if req is not None else s["size"])) > TOL:
                out.v("sum-mismatch", where, order=o, total=total, sample=s)
            neg = [n for n in ("sm", "srem", "sl", "sv") if s[n] < -1e-9]
            if s["sc"] < -1e-9 and not sp_lay:
                neg.append("sc")
            if neg:
                out.v("negative-bucket", dict(where, bucket=",".join(neg), removed="yes" if (s["market"], tuple(s["sel"])) in removed_pt else "no"), order=o, sample=s)
            if s["phase"] != "mw" and s["status"] not in ("VIOLATION",):
                out.rule("complete-iff-zero")
                if s["complete"] != (s["srem"] == 0):
                    out.v(
                        "complete-iff-remaining-zero",
                        dict(where, complete=s["complete"], removed="yes" if (s["market"], tuple(s["sel"])) in removed_pt else "no", status=s["status"]),
                        order=o,
                        sample=s,
                    )
            if prev is not None:
                out.rule("monotone")
                rk = (s["market"], tuple(s["sel"]))
                if s["sm"] < prev["sm"] - 1e-9 and rk not in removed_pt:
                    out.v("matched-decreased", where, order=o, prev=prev, sample=s)
                voided_now = rk in removed_pt and s["sv"] > prev["sv"] + 1e-9  # C09: the bet is voided in full
                for b in ("sl", "sv") + (() if sp_lay else ("sc",)):
                    if s[b] < prev[b] - 1e-9 and not voided_now:
                        out.v("bucket-decreased", dict(where, bucket=b), order=o, prev=prev, sample=s)
                # a bucket changes only with the compensating change: total conserved is checked above
            prev = s
        last = ss[-1]
        out.d("c04:%s:%s:%s:%s:%s:%s" % (last["status"], last["sm"] > 0, last["sc"] > 0, last["sl"] > 0, last["sv"] > 0, last["persistence"]))


# -------------------------------------------------------------------------------------------
# C05 limit price / fill-or-kill
# -------------------------------------------------------------------------------------------


def vwap(frags):
    a = sum(f[1] * f[2] for f in frags)
    b = sum(f[2] for f in frags)
    return (a / b) if b else None


def c05_fills(tr, out):
    fok = {}
    placed = {}
    for p in tr.placements:
        placed[p["o"]] = p
        if p["otype"] != "LIMIT":
            continue
        out.rule("placement")
        side, price, size = p["side"], p["price"], p["size"]
        book = p["atb"] if side == "BACK" else p["atl"]
        frags = p.get("frags", [])
        is_fok = p["tif"] == "FILL_OR_KILL"
        best = book[0][0] if book else None
        rel = "nobook" if best is None else ("through" if (best > price if side == "BACK" else best < price) else ("at" if best == price else "behind"))
        out.d("c05:%s:%s:%s:%s:%s:%d:%s" % (side, rel, "fok" if is_fok else "gtc", p["min_fill"] is not None and ("lt" if p["min_fill"] < size else "eq" if p["min_fill"] == size else "gt"), p["bpe"], min(len(book or ()), 4), p.get("resp_status")))
        tagbase = {"side": side, "fok": is_fok, "bpe": p["bpe"], "rel": rel}
        if p["mstatus"] != "OPEN" or p["rstatus"] != "ACTIVE":
            if frags:
                out.v("fill-on-closed-market-or-runner", tagbase, placement=p)
            continue
        # limit respected
        if frags:
            if is_fok:
                # the exchange (and flumine's wap()) carry the average matched price to 2 dp; the limit is compared
                # with that reported average, so a true VWAP within 0.005 (the rounding of that average) of the limit is accepted
                w = vwap(frags)
                if (side == "BACK" and w < price - 0.005 - 1e-9) or (side == "LAY" and w > price + 0.005 + 1e-9):
                    out.v("fok-vwap-breaches-limit", tagbase, placement=p, vwap=w)
            else:
                for f in frags:
                    if (side == "BACK" and f[1] < price - 1e-9) or (side == "LAY" and f[1] > price + 1e-9):
                        out.v("fill-worse-than-limit", tagbase, placement=p, frag=f)
        # level availability (not in full-match mode)
        if not p["full_match"] and frags:
            avail = collections.defaultdict(float)
            for pr, sz in book or ():
                avail[pr] += sz
            took = collections.defaultdict(float)
            for f in frags:
                took[f[1]] += f[2]
            for pr, sz in took.items():
                out.rule("level")
                if sz > avail.get(pr, 0.0) + 0.006:
                    out.v("took-more-than-available", tagbase, placement=p, price=pr, took=sz, available=avail.get(pr, 0.0))
        # fill-or-kill all-or-nothing
        if is_fok and p.get("resp_status") == "SUCCESS":
            out.rule("fok")
            mf = p["min_fill"] if p["min_fill"] else size
            if 0 < p["sm"] < mf - 1e-9:
                out.v("fok-partial-below-min-fill", tagbase, placement=p)
            if p["rem"] != 0:
                out.v("fok-rests", tagbase, placement=p)
            fok[p["o"]] = p
        # BPE off
        if not p["bpe"]:
            out.rule("bpe-off")
            if rel == "through" and (frags or p.get("resp_status") != "FAILURE"):
                out.v("bpe-off-price-improved-fill", tagbase, placement=p)
    for f in tr.fragments:
        out.rule("fragment")
        if f["caller"] == "_process_sp" or f["otype"] != "LIMIT":
            continue
        p = placed.get(f["o"])
        is_fok = p is not None and p["tif"] == "FILL_OR_KILL"
        if not is_fok:
            fr = f["frag"]
            if (f["side"] == "BACK" and fr[1] < f["limit"] - 1e-9) or (f["side"] == "LAY" and fr[1] > f["limit"] + 1e-9):
                out.v("fill-worse-than-limit", {"side": f["side"], "fok": False, "via": f["caller"]}, fragment=f)
        if is_fok and p is not None and f["seq"] > p["seq"] and f["tick"] > p["tick"]:
            out.v("fok-filled-after-placement", {"side": f["side"]}, fragment=f, placement=p)


def book_at_arrival_is_current(tr, out, tags=None):
    """An order reaching the (simulated) exchange is matched against the book in force at that moment, not an earlier one."""
    for p in tr.placements:
        if p.get("market_pt_now") is None or p.get("book_pt") is None:
            continue
        out.rule("book-current")
        if p["book_pt"] != p["market_pt_now"]:
            out.v("order-matched-against-a-book-that-is-not-the-current-one", dict(tags or {}, filled=bool(p.get("frags")), mstatus=p["mstatus"]), order=p["o"], book_pt=p["book_pt"], market_pt_now=p["market_pt_now"], frags=p.get("frags"))


def book_at_arrival_matches_file(tr, out, snaps_by_market):
    """The book an arriving order is matched against is the one the recorded data shows for that publish time (the reader's own
    accumulation of every line of the file, whatever the listener's filters delivered)."""
    by_pt = {(m, s["pt"]): s for m, snaps in snaps_by_market.items() for s in snaps}
    for p in tr.placements:
        if p.get("atb") is None:
            continue
        order = tr.orders.get(p["o"])
        if order is None:
            continue
        snap = by_pt.get((order.market_id, p["book_pt"]))
        if snap is None:
            continue
        rb = snap["runners"].get((order.selection_id, order.handicap))
        if rb is None or rb["status"] != "ACTIVE":
            continue
        out.rule("book-vs-file")
        for side in ("atb", "atl"):
            got = {round(pr, 2): round(sz, 2) for pr, sz in p[side]}
            want = {round(pr, 2): round(sz, 2) for pr, sz in rb[side].items() if sz}
            if got != want:
                diff = sorted(set(got.items()) ^ set(want.items()))[:6]
                out.v("book-at-arrival-differs-from-recorded-data", {"side": side, "filters": ",".join(sorted(getattr(tr, "listener_filters", ()) or ())) or "-"}, order=p["o"], pt=p["book_pt"], diff=diff)
                break


def c05_available(tr, out, snaps_by_market):
    """config.simulation_available_prices: a resting order is also filled from the sizes offered at or better than its limit in
    the update being processed.  Each such fragment must be covered by a level that the raw file shows in THAT update."""
    by_pt = {(m, s["pt"]): s for m, snaps in snaps_by_market.items() for s in snaps}
    per = collections.defaultdict(list)
    for f in tr.fragments:
        if f["caller"] != "_calculate_process_available":
            continue
        per[(f["o"], f["tick"])].append(f)
    for (o, tick), fs in per.items():
        out.rule("available")
        order = tr.orders.get(o)
        tk = tr.ticks[tick] if 0 <= tick < len(tr.ticks) else None
        if order is None or tk is None:
            continue
        snap = by_pt.get((tk["market"], tk["pt"]))
        if snap is None or tk["market"] != order.market_id:
            out.v("available-fill-outside-own-market-update", {"side": order.side}, order=o, tick=tk)
            continue
        rb = snap["runners"].get((order.selection_id, order.handicap))
        limit = fs[0]["limit"]
        if rb is None:
            continue
        book = rb["atb"] if order.side == "BACK" else rb["atl"]
        levels = [sz for pr, sz in book.items() if (pr >= limit - 1e-9 if order.side == "BACK" else pr <= limit + 1e-9)]
        took = sum(f["frag"][2] for f in fs)
        out.d("c05avail:%s:%d:%d" % (order.side, min(len(levels), 3), min(len(fs), 3)))
        if took > sum(levels) + 0.006 or any(f["frag"][2] > max(levels or [0.0]) + 0.006 for f in fs):
            out.v("took-more-than-available", {"side": order.side, "fok": False, "bpe": True, "rel": "resting", "via": "available"}, order=o, took=took, levels=levels, limit=limit, pt=tk["pt"])
        for f in fs:
            if abs(f["frag"][1] - limit) > 1e-9:
                out.v("fill-worse-than-limit", {"side": order.side, "fok": False, "via": "available"}, fragment=f)


# -------------------------------------------------------------------------------------------
# C07 latency / bet delay
# -------------------------------------------------------------------------------------------

LAT_KEYS = {"PLACE": "place_latency", "CANCEL": "cancel_latency", "UPDATE": "update_latency", "REPLACE": "replace_latency"}
LAT_DEFAULT = {"place_latency": 0.120, "cancel_latency": 0.170, "update_latency": 0.150, "replace_latency": 0.280}


def _ms(dt):
    import datetime as _dt

    return int(round((dt - _dt.datetime(1970, 1, 1)).total_seconds() * 1000))


def c07_latency(tr, out, snaps_by_market, case):
    cfg = case.get("config", {})
    times = {m: [s["pt"] for s in snaps] for m, snaps in snaps_by_market.items()}
    delays = {m: [s["bet_delay"] for s in snaps] for m, snaps in snaps_by_market.items()}
    effects = {}
    for e in tr.effects:
        effects.setdefault(e["pid"], []).append(e)
    for p in tr.packages:
        m = p["market"]
        tk = tr.ticks[p["tick"]]
        t = tk["pt"]
        if tk["market"] != m:
            # a request made while another market's update was being processed (event-grouped runs): the delay still counts
            # from the request; the market's own state (bet delay) is that of its latest update
            if not case.get("event_processing") or tk["market"] not in times or m not in times:
                out.v("package-created-outside-its-market-update", {"kind": p["kind"]}, package=p, tick=tk)
                continue
            last = next((tr.ticks[j] for j in range(p["tick"] - 1, -1, -1) if tr.ticks[j]["market"] == m), None)
            if last is None or last["pt"] not in times[m]:
                continue
            # (index of the market's latest processed update; with repeated publish times the last of them)
            i_req = max(i for i, x in enumerate(times[m]) if x == last["pt"])
            out.c("cross_market_requests")
        else:
            try:
                i_req = times[m].index(t)
            except ValueError:
                out.v("request-time-not-a-publish-time", {"kind": p["kind"]}, package=p, tick=tk)
                continue
        lat = cfg.get(LAT_KEYS[p["kind"]], LAT_DEFAULT[LAT_KEYS[p["kind"]]])
        d = lat + (delays[m][i_req] if p["kind"] in ("PLACE", "REPLACE") else 0)
        # latencies are whole milliseconds, publish times are integer ms: the comparison is decided exactly.
        # On an exact tie (gap == delay) the statement's "more than" means not yet; the only tolerated
        # deviation is the binary floating point outcome of the very same expression (e.g. 0.12 + 1 vs 1.12).
        d_ms = int(round(d * 1000))
        exp = None
        tie = False
        for i in range(i_req + 1, len(times[m])):
            gap = times[m][i] - t
            if gap > d_ms:
                exp = i
                break
            if gap == d_ms:
                tie = True
                if (gap / 1000) > d:
                    exp = i
                    break
        got = effects.get(p["pid"], [])
        out.rule("package")
        out.d("c07:%s:%s:%s:%s" % (p["kind"], d, "never" if exp is None else min(exp - i_req, 4), "tie" if tie else ""))
        tags = {"kind": p["kind"], "delay": "bet_delay" if d != lat else "latency"}
        if len(got) > 1:
            out.v("package-executed-twice", tags, package=p, effects=got)
            continue
        if not got:
            if exp is not None:
                out.v("package-never-took-effect", tags, package=p, expected_index=exp, times=times[m][i_req : i_req + 6], delay=d)
            continue
        e = got[0]
        etk = tr.ticks[e["tick"]]
        if exp is None or etk["market"] != m or etk["pt"] != times[m][exp]:
            out.v(
                "effect-at-wrong-update",
                dict(tags, early=exp is None or etk["pt"] < times[m][exp], tie=tie),
                package=p,
                effect=e,
                expected=None if exp is None else times[m][exp],
                got=etk,
                delay=d,
                t=t,
            )
            continue
        i_eff = times[m].index(etk["pt"])
        out.rule("effect")
        if e["book_pt"] != times[m][i_eff - 1]:
            out.v("effect-against-wrong-book", tags, package=p, effect=e, expected_book=times[m][i_eff - 1])
    # pending orders have no fills; timestamps
    for o, ss in tr.samples.items():
        for s in ss:
            if s["status"] == "PENDING":
                out.rule("pending-no-fill")
                if s["sm"] or s["frags"]:
                    out.v("pending-order-filled", {}, order=o, sample=s)
    final_ms = tr.ticks[-1]["pt"] if tr.ticks else None
    full_match = any(c.get("full_match") for c in case.get("clients", []))
    for o, order in tr.orders.items():
        evs = [e for e in tr.status if e["o"] == o]
        if not evs:
            continue
        try:
            created = _ms(order.date_time_created)
        except Exception:
            continue
        first_tick_ms = tr.ticks[evs[0]["tick"]]["pt"]
        out.rule("timestamps")
        stamps = {"created": created}
        if order.responses.date_time_placed is not None:
            stamps["placed"] = _ms(order.responses.date_time_placed)
        if order.date_time_execution_complete is not None:
            stamps["complete"] = _ms(order.date_time_execution_complete)
        stamps["status_update"] = _ms(order.date_time_status_update)
        for name, v in stamps.items():
            if v > final_ms or v < created:
                out.v("timestamp-outside-run", {"stamp": name}, order=o, stamps=stamps, final=final_ms)
        if "placed" in stamps:
            ack = next((e for e in evs if e["prev"] == "PENDING" and e["new"] != "VIOLATION"), None)
            if ack is not None and stamps["placed"] != tr.ticks[ack["tick"]]["pt"]:
                out.v("placed-stamp-not-effect-time", {}, order=o, stamps=stamps, ack=ack)
        if not full_match:
            # a fill is stamped with the publish time of the book it was matched against: the market's previous book, which for a
            # request made during a sibling market's update (event-grouped run) is older than the order itself
            # (also a replacement order, whose creation time is that of the replace request)
            own = [tk_["pt"] for tk_ in tr.ticks if tk_["market"] == order.market_id and tk_["pt"] is not None and tk_["pt"] <= created]
            lb = max(own) if own else created
            for f in order.simulated.matched:
                if f[0] < lb or f[0] > final_ms:
                    out.v("fragment-stamp-outside-life", {}, order=o, frag=list(f), stamps=stamps)
    for cb in tr.callbacks:
        if cb.get("now") is not None and cb.get("pt") is not None:
            out.rule("clock")
            if cb["now"] != cb["pt"]:
                out.v("utcnow-differs-from-publish-time", {"callback": cb["kind"]}, callback=cb)


# -------------------------------------------------------------------------------------------
# C08 settlement
# -------------------------------------------------------------------------------------------


def settle_fragment(side, p, s, status, market_type, k_dead_heat, ew_div):
    """Profit of one fill (p, s) from first principles.  side BACK; LAY is the negation."""
    if market_type == "EACH_WAY":
        if status == "WINNER":
            v = s * (p - 1) + s * (p - 1) / ew_div
        elif status == "PLACED":
            v = s * (p - 1) / ew_div - s
        elif status == "LOSER":
            v = -2 * s
        else:
            v = 0.0
    else:
        if status == "WINNER":
            k = k_dead_heat
            v = s / k * (p - 1) - s * (k - 1) / k
        elif status == "LOSER":
            v = -s
        else:
            v = 0.0
    return v if side == "BACK" else -v


def c08_settlement(tr, out, snaps_by_market, case):
    closing = {}
    for m, snaps in snaps_by_market.items():
        for s in snaps:
            if s["status"] == "CLOSED":
                closing[m] = s
                break
    by_market_client = collections.defaultdict(list)
    twins = collections.defaultdict(list)
    for o, ss in tr.samples.items():
        cl = [s for s in ss if s["phase"] == "closed"]
        if not cl:
            continue
        s = cl[0]
        m = s["market"]
        snap = closing.get(m)
        if snap is None:
            continue
        rs = snap["runners"].get(tuple(s["sel"]), {}).get("status")
        nw_def = snap["number_of_winners"]
        n_win = sum(1 for r in snap["runners"].values() if r["status"] == "WINNER")
        k = n_win if (nw_def and n_win > nw_def) else 1
        mt = snap["market_type"]
        d = (snap["md"] or {}).get("eachWayDivisor") or 1
        frags = s["frags"]
        matched = sum(f[2] for f in frags)
        out.rule("order-profit")
        tags = {"market_type": mt, "result": rs, "otype": s["otype"], "side": s["side"], "dead_heat": k > 1}
        if s["otype"] == "MOC" and s["side"] == "LAY" and abs(matched - s["sm"]) > 0.005:
            tags["sp_lay_resized"] = True  # matched size no longer that of its fill (non-runner after the starting price was struck)
        if s["runner_status"] != rs:
            out.v("runner-status-not-copied", tags, order=o, sample=s, file_status=rs)
        if s["sm"] > 0:
            by_market_client[(m, s["client"])].append((o, s["profit"]))
        else:
            by_market_client[(m, s["client"])]
        if s.get("ladder") == "LINE_RANGE":
            res = (case.get("line_results") or {}).get(m)
            out.d("c08:LINE:%s:%s" % (s["side"], "none" if res is None else ("tie" if any(f[1] == res for f in frags) else "decided")))
            if res is None or not frags:
                if abs(s["profit"]) > 1e-9:
                    out.v("profit-without-result-or-fill", tags, order=o, sample=s)
                continue
            # even money against the struck line; orientation is the code's own, the magnitude and the
            # opposite-sides relation are what the property states
            if abs(abs(s["profit"]) - round(matched, 2)) > 0.011:
                out.v("line-not-even-money", dict(tags, struck_at_zero=any(f[1] == 0 for f in frags)), order=o, sample=s)
            twins[(m, tuple(s["sel"]), repr(sorted((f[1], f[2]) for f in frags)), "LINE", res)].append((s["side"], s["profit"], o))
            continue
        exp = sum(settle_fragment(s["side"], f[1], f[2], rs, mt, k, d) for f in frags)
        tol = 0.005 * matched * (1 + (1.0 / d if mt == "EACH_WAY" else 0)) + 0.01
        out.d("c08:%s:%s:%s:%s:%s:%d" % (mt, rs, s["otype"], s["side"], k, min(len(frags), 3)))
        if abs(s["profit"] - exp) > tol:
            out.v("profit-differs-from-settlement", tags, order=o, sample=s, expected=exp, tol=tol)
        if frags:
            out.rule("avg-price")
            true_avg = sum(f[1] * f[2] for f in frags) / matched if matched else 0
            if abs(true_avg - s["apm"]) > 0.005 + 1e-9:
                out.v("average-price-off", tags, order=o, sample=s, true_avg=true_avg)
            twins[(m, tuple(s["sel"]), repr(sorted((f[1], f[2]) for f in frags)), s["otype"] if s["otype"] == "LIMIT" else "SP", None)].append((s["side"], s["profit"], o))
    for key, lst in twins.items():
        backs = [x for x in lst if x[0] == "BACK"]
        lays = [x for x in lst if x[0] == "LAY"]
        for b in backs:
            for l in lays:
                out.rule("twin")
                if abs(b[1] + l[1]) > 1e-9:
                    is_line = key[3] == "LINE"
                    out.v("twins-not-opposite", {"kind": key[3], "line_tie": bool(is_line and _line_tie(key))}, back=b, lay=l, fills=key[2], result=key[4])
    # market level cleared summaries
    rates = {c.get("username", "sim%d" % i): c.get("commission", 0.05) for i, c in enumerate(case.get("clients") or [{}])}
    seen = collections.Counter()
    for ev in tr.logs:
        if ev["type"] != "CLEARED_MARKETS":
            continue
        for pl in ev.get("payload") or ():
            m = pl["market_id"]
            out.rule("cleared-market")
            # attribute to a client: the events are emitted per client in framework order
            seen[m] += 1
    names = list(rates)
    per_market_events = collections.defaultdict(list)
    for ev in tr.logs:
        if ev["type"] == "CLEARED_MARKETS":
            for pl in ev.get("payload") or ():
                per_market_events[pl["market_id"]].append(pl)
    for m, evs in per_market_events.items():
        if m not in closing:
            continue
        # one summary per client per closing update, in client order
        for j, pl in enumerate(evs):
            cname = names[j % len(names)]
            orders = by_market_client.get((m, cname), [])
            exp_profit = round(sum(p for _, p in orders), 2)
            exp_comm = round(max(exp_profit * rates[cname], 0), 2)
            if abs(pl["profit"] - exp_profit) > 0.0051 or pl["bet_count"] != len(orders):
                out.v("cleared-summary-differs", {"field": "profit/bet_count"}, market=m, client=cname, payload=pl, expected_profit=exp_profit, expected_count=len(orders))
            if abs(pl["commission"] - exp_comm) > 0.0051 or pl["commission"] < 0:
                out.v("cleared-summary-differs", {"field": "commission"}, market=m, client=cname, payload=pl, expected=exp_comm)


def _line_tie(key):
    import ast

    fills = ast.literal_eval(key[2])
    return key[4] is not None and any(abs(p - key[4]) < 1e-9 for p, _ in fills)


# -------------------------------------------------------------------------------------------
# C09 runner removal
# -------------------------------------------------------------------------------------------

PLACEMENT_CALLERS = ("_process_price_matched", "_process_price_matched_vwap")


def reduced_price(p, af):
    if af is not None and af >= 2.5:
        return max(round(p * (1 - af / 100.0), 2), 1.01)
    return p


def c09_removals(tr, out, snaps_by_market, case, tags):
    # tick of every line of every market
    tick_of = {}
    for t, tk in enumerate(tr.ticks):
        tick_of.setdefault((tk["market"], tk["pt"]), t)
    removal_ticks = collections.defaultdict(list)  # market -> [(tick, key, af, own_afs)]
    for m, snaps in snaps_by_market.items():
        for i, key, af in removal_updates(snaps):
            t = tick_of.get((m, snaps[i]["pt"]))
            if t is None:
                continue
            removal_ticks[m].append((t, key, af, {k: r["af"] for k, r in snaps[i]["runners"].items()}, snaps[i]["market_type"], snaps[i]["status"]))
    placements = collections.defaultdict(list)
    for pl in tr.placements:
        placements[pl["o"]].append(pl)
    # a PENDING order is only excused while its placement is on its way to the exchange (a package was created for it and has not taken
    # effect yet); an order filed in the blotter and never sent has nothing in flight
    eff_tick = {}
    for e in tr.effects:
        if e["kind"] == "PLACE":
            eff_tick[e["pid"]] = e["tick"]
    flight = collections.defaultdict(list)  # order -> [(package tick, effect tick or inf)]
    for p in tr.packages:
        if p["kind"] == "PLACE":
            for o_ in p["orders"]:
                flight[o_].append((p["tick"], eff_tick.get(p["pid"], float("inf"))))

    def in_flight(o_, t_):
        return any(a <= t_ <= b for a, b in flight.get(o_, ()))

    for o, ss in tr.samples.items():
        if not ss:
            continue
        m = ss[0]["market"]
        sel = tuple(ss[0]["sel"])
        rems = removal_ticks.get(m, [])
        rem_by_tick = collections.defaultdict(list)
        for r in rems:
            rem_by_tick[r[0]].append(r)
        own_removed_tick = min((r[0] for r in rems if r[1] == sel), default=None)
        cause = cause_of(tags, o)
        prev = None
        for s in ss:
            t = s["tick"]
            # ---- orders on the removed runner
            if own_removed_tick is not None and t >= own_removed_tick and (t > own_removed_tick or s["phase"] != "pre"):
                out.rule("void")
                state = "none" if prev is None or prev["tick"] >= own_removed_tick else prev["status"]
                vt = {"otype": s["otype"], "state_before": state if t == own_removed_tick else "later", "cause": cause}
                if s["sm"] != 0 or any(f[2] for f in s["frags"]):
                    out.v("removed-runner-order-still-matched", vt, order=o, sample=s)
                # (an order filed unsent only AFTER the removal was never on a live runner: nothing to void)
                excused = s["status"] == "PENDING" and (in_flight(o, t) or ss[0]["tick"] >= own_removed_tick)
                if s["otype"] == "LIMIT" and s["srem"] != 0 and not excused:
                    out.v("removed-runner-order-has-remaining", vt, order=o, sample=s)
                if s["phase"] in ("book", "closed") and t > own_removed_tick and not s["complete"] and not excused:
                    out.v("removed-runner-order-not-complete", {"otype": s["otype"], "status": s["status"], "cause": cause}, order=o, sample=s)
                if s["phase"] == "closed" and abs(s.get("profit", 0.0)) > 1e-9:
                    out.v("removed-runner-order-has-profit", vt, order=o, sample=s)
            # ---- orders on other runners: reduction exactly once
            if prev is not None and (own_removed_tick is None or t < own_removed_tick):
                here = [r for r in rem_by_tick.get(t, []) if r[1] != sel] if (t != prev["tick"] and s["phase"] == "mw") else []
                n0 = len(prev["frags"])
                exp = [f[1] for f in prev["frags"]]
                if here:
                    # fragments appended by a placement executed at this update before the middleware ran are reduced too
                    # (taken from the placement record, which sees the list after a fill-or-kill roll-back)
                    for pl in placements.get(o, ()):
                        if pl["tick"] == t and pl["seq"] < s["seq"]:
                            exp = exp + [f[1] for f in pl.get("frags", [])]
                    moc_lay = s["otype"] == "MOC" and s["side"] == "LAY"
                    for (_, key, af, own_afs, mt, mst) in here:
                        out.rule("reduction")
                        out.d("c09:%s:%s:%s:%s" % (mt, "none" if af is None else ("lt" if af < 2.5 else "ge"), s["otype"], s["status"]))
                        if moc_lay:
                            own = own_afs.get(sel)
                            expL = prev["liability"]
                            if af is not None:
                                if mt == "WIN" and own is not None:
                                    expL = prev["liability"] * (1 - af / (100.0 - own))
                                elif mt in ("PLACE", "OTHER_PLACE"):
                                    expL = prev["liability"] * (100.0 - af) * 0.01
                            if mt == "WIN" and own is None and af is not None:
                                pass  # the formula needs the runner's own factor: unconstrained
                            elif abs(s["liability"] - expL) > 1e-6:
                                out.v("sp-lay-liability-not-scaled", {"market_type": mt, "cause": cause}, order=o, before=prev, after=s, expected=expL, factor=af, own=own)
                            if prev["frags"] and af is not None and af >= 2.5:
                                # the lay was already matched at the starting price (late withdrawal): it is a matched fill on another
                                # runner like any other, its price is reduced and its size stays
                                out.rule("reduction")
                                want = [reduced_price(f[1], af) for f in prev["frags"]]
                                gotp = [f[1] for f in s["frags"][: len(want)]]
                                if any(abs(a - b) > 0.0051 for a, b in zip(gotp, want)) or abs(s["sm"] - prev["sm"]) > 1e-9:
                                    out.v("matched-sp-lay-not-reduced-like-a-fill", {"market_type": mt, "size_changed": abs(s["sm"] - prev["sm"]) > 1e-9}, order=o, before=prev, after=s, expected_prices=want, factor=af)
                            prev = dict(prev, liability=s["liability"])
                        else:
                            exp = [reduced_price(p, af) for p in exp]
                    if not moc_lay:
                        got = [f[1] for f in s["frags"][: len(exp)]]
                        if len(got) < len(exp) or any(abs(a - b) > 0.0051 for a, b in zip(got, exp)):
                            afs = [r[2] for r in here]
                            out.v(
                                "matched-price-not-reduced-as-stated",
                                {"factor": "none" if afs[0] is None else ("lt2.5" if afs[0] < 2.5 else "ge2.5"), "cause": cause, "floor": any(x <= 1.0101 for x in exp)},
                                order=o,
                                before=prev,
                                after=s,
                                expected=exp,
                                factors=afs,
                            )
                else:
                    out.rule("stable")
                    got = [f[1] for f in s["frags"][:n0]]
                    if len(got) < n0 or any(abs(a - b) > 1e-9 for a, b in zip(got, exp)):
                        if not (own_removed_tick is not None):
                            out.v("matched-price-changed-without-removal", {"cause": cause}, order=o, before=prev, after=s)
                    if s["otype"] == "MOC" and prev["liability"] is not None and abs(s["liability"] - prev["liability"]) > 1e-9:
                        out.v("sp-liability-changed-without-removal", {"cause": cause}, order=o, before=prev, after=s)
            # ---- after a removal in its market, the reported average price is that of the (reduced) fills
            first_rem = min((r[0] for r in rems), default=None)
            if first_rem is not None and t >= first_rem and s["phase"] != "pre" and s["otype"] == "LIMIT" and s["frags"] and (own_removed_tick is None or t < own_removed_tick):
                out.rule("average")
                msum = sum(f[2] for f in s["frags"])
                if msum > 0:
                    true_avg = sum(f[1] * f[2] for f in s["frags"]) / msum
                    if abs(true_avg - s["apm"]) > 0.005 + 1e-9:
                        out.v("average-price-not-that-of-reduced-fills", {"cause": cause, "later_fill": len(s["frags"]) > 1}, order=o, sample=s, true_avg=true_avg)
            prev = s
    # a removal in the file that never produced a tick is outside what was observed
    out.c("removals_in_files", sum(len(v) for v in removal_ticks.values()))


# -------------------------------------------------------------------------------------------
# B1 worst-case exposure by brute force (C01, C11, C16)
# -------------------------------------------------------------------------------------------

EXCLUDED = {"PENDING", "VIOLATION", "EXPIRED"}


def selection_wpp(orders):
    """orders: exposure views of ONE selection (already without the exclusion, with the prospective order).
    Returns (worst profit if the selection wins, worst profit if it loses) over every subset of open limit
    orders filling fully at their limit."""
    fixed_win = fixed_lose = 0.0
    open_limit = []
    for o in orders:
        if o["status"] in EXCLUDED:
            continue
        if o["otype"] == "LIMIT":
            line = o["ladder"] == "LINE_RANGE"
            m = o["matched"] or 0.0
            a = 2.0 if line else (o["avg"] or 0.0)
            if m:
                if o["side"] == "BACK":
                    fixed_win += m * (a - 1)
                    fixed_lose -= m
                else:
                    fixed_win -= m * (a - 1)
                    fixed_lose += m
            if not o["complete"]:
                r = o["remaining"] or 0.0
                p = 2.0 if line else o["price"]
                if r and p:
                    open_limit.append((o["side"], p, r))
        else:
            if o["side"] == "BACK":
                fixed_lose -= o["liability"]
            else:
                fixed_win -= o["liability"]
    best_win = best_lose = None
    n = len(open_limit)
    for mask in range(1 << n):
        w = l = 0.0
        for i in range(n):
            if mask >> i & 1:
                side, p, r = open_limit[i]
                if side == "BACK":
                    w += r * (p - 1)
                    l -= r
                else:
                    w -= r * (p - 1)
                    l += r
        best_win = w if best_win is None else min(best_win, w)
        best_lose = l if best_lose is None else min(best_lose, l)
    return fixed_win + (best_win or 0.0), fixed_lose + (best_lose or 0.0)


def market_worst_case(per_selection, number_of_winners, number_of_active_runners):
    """per_selection: {sel: (wpp_win, wpp_lose)} for selections carrying orders.  Worst total profit over every
    set of `number_of_winners` winners among the active runners (runners without orders contribute 0)."""
    sels = list(per_selection)
    others = max(0, number_of_active_runners - len(sels))
    items = [per_selection[s] for s in sels] + [(0.0, 0.0)] * others
    n = len(items)
    k = min(number_of_winners, n)
    best = None
    for winners in itertools.combinations(range(n), k):
        ws = set(winners)
        tot = sum(items[i][0] if i in ws else items[i][1] for i in range(n))
        best = tot if best is None else min(best, tot)
    return best if best is not None else 0.0


def order_exposure(o):
    if o["otype"] == "LIMIT":
        if o["ladder"] == "LINE_RANGE" or o["side"] == "BACK":
            return o["size"]
        return (o["price"] - 1) * o["size"]
    return o["liability"]


# -------------------------------------------------------------------------------------------
# C10 limits on accepted placements (independent history)
# -------------------------------------------------------------------------------------------


def c10_limits(tr, out, case):
    """Evaluate max_trade_count / max_live_trade_count / reset_seconds / place_reset_seconds on every accepted,
    non-forced, executed placement from a shadow history built from the request log and the status events."""
    strat = {s["name"]: s for s in case.get("strategies", [])}
    # order -> list of (seq, complete?) from the status hook
    timeline = collections.defaultdict(list)
    for e in tr.status:
        timeline[e["o"]].append((e["seq"], e["new"] in DONE))
    trade_orders = collections.defaultdict(list)  # tkey -> orders placed (accepted) with seq
    ctx_trades = collections.defaultdict(list)
    last_placed = {}
    reused = set()

    def complete_at(o, seq):
        c = False
        for s, done in timeline.get(o, ()):
            if s > seq:
                break
            c = done
        return c

    def trade_live_at(t, seq):
        return any(not complete_at(o, seq) for o, s in trade_orders[t] if s <= seq)

    last_seq_of_tick = {}
    for e in tr.status:
        last_seq_of_tick[e["tick"]] = max(last_seq_of_tick.get(e["tick"], 0), e["seq"])

    def completion_time(t, seq, tick):
        """simulated ms of the last update in which trade t went from live to not live, judged at quiescent
        points only (end of each update; the request itself for the current update): a replace completes the old
        order and places the new one inside one handler call, which is not a completion of the trade."""
        first = min(tr.ticks_of_seq(s) for _, s in trade_orders[t]) if trade_orders[t] else tick
        prev_live = False
        last = None
        for k in range(first, tick + 1):
            cp = seq if k == tick else last_seq_of_tick.get(k)
            if cp is None:
                continue
            now_live = trade_live_at(t, cp)
            if prev_live and not now_live:
                last = k
            prev_live = now_live
        return None if last is None else tr.ticks[last]["pt"]

    seq_ms = {}
    for e in tr.status:
        seq_ms[e["seq"]] = tr.ticks[e["tick"]]["pt"] if e["tick"] >= 0 else None
    for r in tr.requests:
        if r["kind"] == "PLACE" and r.get("result") is False and r["execute"] and not r["force"] and r.get("after"):
            # never locked out: a placement refused for a cool-down or for the trade counters must really be inside the
            # cool-down / at the limit according to the independent history (simulated clock)
            msg = r["after"].get("violation_msg") or ""
            key = (r["strategy"], tuple(r["lookup"]))
            known = ctx_trades[key]
            now = tr.ticks[r["tick"]]["pt"]
            sp = strat.get(r["strategy"], {})
            if not any(x in reused for x in known + [r["t"]]) and not r["trade_params"][2]:
                reset_s, place_s, _ = r["trade_params"]
                # the cool-down runs from the framework's own reset / place events on this runner context (a trade completed a second
                # time restarts it, which only makes the framework stricter), measured on the SIMULATED clock
                ev = [tr.ticks[c["tick"]]["pt"] for c in tr.ctx if c["ctx"] == r.get("ctx_id") and c["seq"] < r["seq"] and c["tick"] >= 0]
                if "reset_elapsed_seconds" in msg and "strategy.validate_order" in msg:
                    out.rule("refusal")
                    resets = [tr.ticks[c["tick"]]["pt"] for c in tr.ctx if c["ctx"] == r.get("ctx_id") and c["kind"] == "reset" and c["seq"] < r["seq"] and c["tick"] >= 0]
                    if not resets or (now - max(resets)) / 1000.0 >= reset_s + 1e-9:
                        out.v("refused-although-cool-down-elapsed", {"which": "reset_seconds"}, request=_rq(r), msg=msg[:160], elapsed=None if not resets else (now - max(resets)) / 1000.0, reset_seconds=reset_s)
                elif "placed_elapsed_seconds" in msg and "strategy.validate_order" in msg:
                    out.rule("refusal")
                    places = [tr.ticks[c["tick"]]["pt"] for c in tr.ctx if c["ctx"] == r.get("ctx_id") and c["kind"] == "place" and c["seq"] < r["seq"] and c["tick"] >= 0]
                    if not places or (now - max(places)) / 1000.0 >= place_s + 1e-9:
                        out.v("refused-although-cool-down-elapsed", {"which": "place_reset_seconds"}, request=_rq(r), msg=msg[:160], elapsed=None if not places else (now - max(places)) / 1000.0, place_reset_seconds=place_s)
                elif "live_trade_count" in msg and "strategy.validate_order" in msg:
                    out.rule("refusal")
                    live_now = [x for x in known if trade_live_at(x, r["seq"])]
                    if len(live_now) < sp.get("max_live_trade_count", 1e6):
                        out.v("refused-although-live-slot-free", {}, request=_rq(r), msg=msg[:160], live=len(live_now), limit=sp.get("max_live_trade_count"))
            continue
        if r["kind"] != "PLACE" or not r.get("result"):
            continue
        key = (r["strategy"], tuple(r["lookup"]))
        t = r["t"]
        now = tr.ticks[r["tick"]]["pt"]
        if r["execute"]:
            sp = strat.get(r["strategy"], {})
            mtc = sp.get("max_trade_count", 1e6)
            mltc = sp.get("max_live_trade_count", 1e6)
            multi = sp.get("multi_order_trades", True)
            known = ctx_trades[key]
            live_now = [x for x in known if trade_live_at(x, r["seq"])]
            if r["trade_status"] == "COMPLETE":
                reused.add(t)
            if not r["force"] and not any(x in reused for x in known + [t]) and not r["trade_params"][2]:
                out.rule("limit")
                tags = {"multi": multi}
                exempt = multi and t in live_now
                if not exempt:
                    if (len(known) >= mtc and t not in known) or len(known) > mtc:
                        out.v("accepted-beyond-max-trade-count", tags, request=_rq(r), trades=len(known), limit=mtc)
                    if (len(live_now) >= mltc and t not in live_now) or len(live_now) > mltc:
                        out.v("accepted-beyond-max-live-trade-count", tags, request=_rq(r), live=len(live_now), limit=mltc)
                    reset_s, place_s, _ = r["trade_params"]
                    # cool-down after a completed trade
                    comps = [completion_time(x, r["seq"], r["tick"]) for x in known]
                    comps = [c for c in comps if c is not None]
                    if comps and reset_s and (now - max(comps)) / 1000.0 < reset_s - 1e-9:
                        out.v("accepted-within-reset-seconds", dict(tags, elapsed_zero=now == max(comps)), request=_rq(r), elapsed=(now - max(comps)) / 1000.0, reset_seconds=reset_s)
                    lp = last_placed.get(key)
                    if lp is not None and place_s and (now - lp) / 1000.0 < place_s - 1e-9:
                        out.v("accepted-within-place-reset-seconds", dict(tags, elapsed_zero=now == lp), request=_rq(r), elapsed=(now - lp) / 1000.0, place_reset_seconds=place_s)
                out.d("c10:%s:%s:%s:%s" % (min(len(known), 3), min(len(live_now), 3), multi, t in known))
            if t not in known:
                known.append(t)
            last_placed[key] = now
        trade_orders[t].append((r["o"], r["seq"]))


def _rq(r):
    return {k: r[k] for k in ("seq", "tick", "kind", "o", "t", "strategy", "lookup", "force", "execute", "trade_params", "trade_status")}


# -------------------------------------------------------------------------------------------
# C01 exposure limits: decision rule at the request boundary
# -------------------------------------------------------------------------------------------

TOL_EXPOSURE = 0.011


def c01_decisions(tr, out, case):
    limits = {s["name"]: s.get("limits", {}) for s in case.get("strategies", [])}
    place_pkgs = [p for p in tr.packages if p["kind"] == "PLACE"]
    place_reqs = collections.defaultdict(list)
    for r in tr.requests:
        if r["kind"] == "PLACE":
            place_reqs[r["o"]].append(r["seq"])

    def packaged_after(r):
        # sent because of THIS offer: a package holding the order created before the order is offered again
        nxt = min((q for q in place_reqs[r["o"]] if q > r["seq"]), default=float("inf"))
        return any(r["o"] in p["orders"] and r["seq"] < p["seq"] < nxt for p in place_pkgs)

    for r in tr.requests:
        if r["kind"] not in ("PLACE", "REPLACE") or r.get("position") is None or r["force"]:
            continue
        if r["kind"] == "PLACE" and not r["execute"]:
            continue
        lim = dict(limits.get(r["strategy"], {}))
        if r.get("limits_after") is not None:
            # the limits in force are the strategy's own attributes when the decision was taken (a validate_order hook may have loaded
            # the budget of the order's runner)
            lim = {"order": r["limits_after"][0], "selection": r["limits_after"][1], "market": r["limits_after"][2]}
        cand = dict(r["candidate"])
        position = [dict(v) for v in r["position"]]
        if r["kind"] == "REPLACE":
            if r.get("exc"):
                continue
            # the order as it will exist afterwards: its remainder at the NEW price; the old bet keeps its matched part
            if cand["otype"] != "LIMIT":
                continue  # a limit-on-close replace moves the same liability to another price: exposure unchanged
            for v in position:
                if v["o"] == r["o"]:
                    v["complete"] = True
            rem = cand["remaining"] or 0.0
            cand = dict(cand, status="EXECUTABLE", complete=False, price=r["new_price"], size=rem, remaining=rem, matched=0.0, avg=0.0)
        else:
            cand = dict(cand, status="EXECUTABLE", complete=False, remaining=cand["size"] if cand["otype"] == "LIMIT" else 0.0, matched=0.0)
            if any(v["o"] == r["o"] for v in position):
                continue  # duplicate placement of an order already in the blotter: refused as an error, not an exposure decision
        accepted = r.get("result") is True
        sel = tuple(cand["sel"])
        by_sel = collections.defaultdict(list)
        for v in position:
            by_sel[tuple(v["sel"])].append(v)
        by_sel[sel].append(cand)
        w, l = selection_wpp(by_sel[sel])
        affected = -l if cand["side"] == "BACK" else -w
        oexp = order_exposure(cand)
        book = r["book"]
        tags = {"kind": r["kind"], "otype": cand["otype"], "side": cand["side"]}
        out.rule("decision")
        out.d("c01:%s:%s:%s:%s:%s:%d:%s" % (r["kind"], cand["otype"], cand["side"], "".join("1" if lim.get(k) is not None else "0" for k in ("order", "selection", "market")), accepted, min(len(position), 5), cand["ladder"]))
        if accepted:
            if lim.get("order") is not None and oexp > lim["order"] + TOL_EXPOSURE:
                out.v("accepted-beyond-limit", dict(tags, limit="order"), request=_rq(r), exposure=oexp, limit=lim["order"], candidate=cand)
            if lim.get("selection") is not None and affected > lim["selection"] + TOL_EXPOSURE:
                out.v("accepted-beyond-limit", dict(tags, limit="selection"), request=_rq(r), exposure=affected, limit=lim["selection"], candidate=cand, position=position)
            if lim.get("market") is not None and book and book["number_of_winners"] is not None:
                per = {s_: selection_wpp(vs) for s_, vs in by_sel.items()}
                worst = -market_worst_case(per, book["number_of_winners"], book["number_of_active_runners"])
                out.rule("market-decision")
                if worst > lim["market"] + TOL_EXPOSURE * max(1, len(per)):
                    out.v("accepted-beyond-limit", dict(tags, limit="market"), request=_rq(r), exposure=worst, limit=lim["market"], candidate=cand, position=position, book=book)
        elif r["kind"] == "PLACE" and r.get("result") is False:
            out.rule("refused")
            a = r["after"]
            if a["status"] != "VIOLATION" or a["in_blotter"] or packaged_after(r):
                out.v("refused-order-not-marked-or-sent", tags, request=_rq(r), after=a, packaged=packaged_after(r))
    # refused orders never reach a package
    for p in tr.packages:
        for o in p["orders"]:
            out.rule("package-order")


# -------------------------------------------------------------------------------------------
# C06 passive liquidity (B3 traded ledger built from the raw file lines)
# -------------------------------------------------------------------------------------------

RESTING = {"EXECUTABLE", "CANCELLING", "UPDATING", "REPLACING"}


def traded_deltas(snaps):
    """per line index: {runner key: {price: positive delta of cumulative traded volume}} (first line: baseline)"""
    out = []
    prev = {}
    for i, s in enumerate(snaps):
        d = {}
        for k, r in s["runners"].items():
            cur = r["trd"]
            if i > 0 and r["status"] == "ACTIVE":
                dd = {}
                p = prev.get(k, {})
                for q, v in cur.items():
                    nv = round(v - p.get(q, 0.0), 2) if q in p else v
                    if nv > 0:
                        dd[q] = nv
                if dd:
                    d[k] = dd
            prev[k] = dict(cur)
        out.append(d)
    return out


def _maxflow(demands, caps, edges):
    """demands: list of floats (orders); caps: list of floats (prices); edges: set of (i, j).  Returns max flow."""
    n, m = len(demands), len(caps)
    S, T = n + m, n + m + 1
    cap = collections.defaultdict(float)
    adj = collections.defaultdict(set)

    def add(u, v, c):
        cap[(u, v)] += c
        adj[u].add(v)
        adj[v].add(u)

    for i, d in enumerate(demands):
        add(S, i, d)
    for j, c in enumerate(caps):
        add(n + j, T, c)
    for i, j in edges:
        add(i, n + j, 1e18)
    flow = 0.0
    while True:
        parent = {S: None}
        q = collections.deque([S])
        while q and T not in parent:
            u = q.popleft()
            for v in adj[u]:
                if v not in parent and cap[(u, v)] > 1e-12:
                    parent[v] = u
                    q.append(v)
        if T not in parent:
            return flow
        b = 1e18
        v = T
        while parent[v] is not None:
            b = min(b, cap[(parent[v], v)])
            v = parent[v]
        v = T
        while parent[v] is not None:
            cap[(parent[v], v)] -= b
            cap[(v, parent[v])] += b
            v = parent[v]
        flow += b


def c06_passive(tr, out, snaps_by_market, case):
    isolation = case.get("config", {}).get("simulated_strategy_isolation", True)
    deltas = {m: traded_deltas(s) for m, s in snaps_by_market.items()}
    line_of = {}
    for m, snaps in snaps_by_market.items():
        for i, s in enumerate(snaps):
            line_of[(m, s["pt"])] = i
    market_ticks = collections.defaultdict(list)
    for t, tk in enumerate(tr.ticks):
        market_ticks[tk["market"]].append(t)
    # traded volume that became known with a delivered update = growth of the cumulative ladders of the FILE between the previously
    # delivered line of that market and this one (a listener filter may have skipped lines in between)
    delta_at = {}
    for m_, ts_ in market_ticks.items():
        prev_li = None
        for t_ in ts_:
            li_ = line_of.get((m_, tr.ticks[t_]["pt"]))
            if li_ is None:
                continue
            if prev_li is None or li_ <= prev_li:
                delta_at[t_] = {} if prev_li is None else (deltas[m_][li_] if li_ == prev_li + 1 else {})
            elif li_ == prev_li + 1:
                delta_at[t_] = deltas[m_][li_]
            else:
                acc = {}
                for j_ in range(prev_li + 1, li_ + 1):
                    for k_, dd_ in deltas[m_][j_].items():
                        a_ = acc.setdefault(k_, {})
                        for q_, v_ in dd_.items():
                            a_[q_] = round(a_.get(q_, 0.0) + v_, 2)
                delta_at[t_] = acc
            prev_li = li_
    passive = collections.defaultdict(list)  # okey -> [(tick, size)]
    for f in tr.fragments:
        if f["caller"] == "_calculate_process_traded":
            passive[f["o"]].append((f["tick"], f["frag"][2], f["frag"][1], f["limit"]))
            out.rule("passive-fragment")
            if abs(f["frag"][1] - f["limit"]) > 1e-9:
                out.v("passive-fill-not-at-own-price", {}, fragment=f)
    cancel_effect = {}
    for e in tr.effects:
        if e["kind"] in ("CANCEL", "REPLACE"):
            for o in e["orders"]:
                cancel_effect.setdefault(o, e["tick"])
    owner = {}
    for r in tr.requests:
        if r["kind"] == "PLACE":
            owner[r["o"]] = r["strategy"]
    placed = [p for p in tr.placements if p["otype"] == "LIMIT" and p.get("resp_status") == "SUCCESS" and not p["full_match"]]
    per_runner = collections.defaultdict(list)
    for p in placed:
        s0 = tr.samples[p["o"]][0] if tr.samples.get(p["o"]) else None
        if s0 is None:
            continue
        per_runner[(owner.get(p["o"]) if isolation else "*", s0["market"], tuple(s0["sel"]))].append(p["o"])
    per_tick_fill = collections.defaultdict(dict)  # (group, market, sel, tick) -> {okey: (fill, side, price)}
    for p in placed:
        o = p["o"]
        ss = tr.samples.get(o)
        if not ss or p["tif"] == "FILL_OR_KILL":
            continue
        m, sel = ss[0]["market"], tuple(ss[0]["sel"])
        side, price = p["side"], p["price"]
        rest0 = p["rem"]
        # queue ahead of the order at its price when it arrived, from the book snapshot (not from the code's _piq):
        # a resting BACK joins the unmatched backers shown on the available-to-lay side at that price, and vice versa
        piq0 = next((sz for pr, sz in (p["atl"] if side == "BACK" else p["atb"]) or () if pr == price), 0.0)
        if rest0 <= 0:
            continue
        group = owner.get(o) if isolation else "*"
        lone = len(per_runner[(group, m, sel)]) == 1
        by_tick = {}
        for s in ss:
            if s["phase"] == "mw":
                by_tick[s["tick"]] = s
        elig_sum = 0.0
        obs = 0.0
        nfr = 0
        pf = passive.get(o, [])
        exact = True
        for t in market_ticks[m]:
            if t < p["tick"]:
                continue
            if t == p["tick"] and p.get("book_is_update"):
                # the order was matched against (and took its queue position from) the book of this very update: what traded up to
                # that book traded before the order arrived
                if any(x[0] == t for x in pf):
                    out.v("filled-by-volume-traded-before-arrival", {"isolation": isolation, "lone": lone, "side": side}, order=o, tick=t, fills=[x for x in pf if x[0] == t][:3], placement=_pl(p))
                continue
            if o in cancel_effect and cancel_effect[o] <= t:
                break  # a cancel / replace took effect before this update's matching: the resting size changed
            s = by_tick.get(t)
            if s is None:
                break
            li = line_of.get((m, tr.ticks[t]["pt"]))
            dd = delta_at.get(t, {}).get(sel, {}) if li is not None else {}
            elig = sum(v for q, v in dd.items() if (q >= price if side == "BACK" else q <= price))
            fills_now = [x for x in pf if x[0] == t]
            got_now = sum(x[1] for x in fills_now)
            # the order is matched by the middleware only while it rests; a lapse / SP conversion / void ends its life
            ended = s["sl"] > 0 or s["sv"] > 0 or (s["status"] not in RESTING and got_now == 0)
            sp_now = any(fr[0] == tr.ticks[t]["pt"] and abs(fr[1] - price) > 1e-9 for fr in s["frags"][-1:]) and s["persistence"] == "MARKET_ON_CLOSE"
            if ended or sp_now:
                if got_now:
                    exact = False
                else:
                    break
            elig_sum += elig
            obs += got_now
            nfr += len(fills_now)
            out.rule("order-update")
            cap_q = max(0.0, elig_sum / 2.0 - piq0)
            tol = 0.01 * (nfr + 1)
            tags = {"side": side, "lone": lone, "isolation": isolation}
            if obs > cap_q + tol:
                out.v("fill-exceeds-eligible-volume-after-queue", tags, order=o, observed=obs, bound=cap_q, eligible=elig_sum, piq=piq0, tick=t, placement=_pl(p))
                break
            if obs > rest0 + tol:
                out.v("fill-exceeds-resting-size", tags, order=o, observed=obs, rest=rest0, tick=t)
                break
            if lone and exact:
                out.rule("lone-equality")
                exp = min(rest0, cap_q)
                if abs(obs - exp) > tol:
                    out.v("lone-order-fill-differs-from-formula", tags, order=o, observed=obs, expected=exp, eligible=elig_sum, piq=piq0, rest=rest0, tick=t, placement=_pl(p))
                    break
            if got_now:
                per_tick_fill[(group, m, sel, t)][o] = (got_now, side, price, ss, p)
            if ended:
                break
        out.d("c06:%s:%s:%s:%s:%s" % (side, lone, piq0 > 0, obs > 0, min(nfr, 3)))
    # aggregate feasibility per update, and priority where unambiguous
    for (group, m, sel, t), fills in per_tick_fill.items():
        li = line_of.get((m, tr.ticks[t]["pt"]))
        dd = delta_at.get(t, {}).get(sel, {}) if li is not None else {}
        prices = sorted(dd)
        okeys = list(fills)
        demands = [fills[o][0] for o in okeys]
        caps = [dd[q] / 2.0 for q in prices]
        edges = {(i, j) for i, o in enumerate(okeys) for j, q in enumerate(prices) if (q >= fills[o][2] if fills[o][1] == "BACK" else q <= fills[o][2])}
        out.rule("aggregate")
        flow = _maxflow(demands, caps, edges)
        if flow < sum(demands) - 0.01 * (len(okeys) + 1):
            out.v("update-fills-exceed-eligible-traded-volume", {"isolation": isolation, "orders": min(len(okeys), 4)}, fills={o: fills[o][:3] for o in okeys}, deltas=dd, flow=flow, tick=t)
        out.d("c06agg:%d:%d:%s" % (min(len(okeys), 4), min(len(prices), 3), isolation))
        # priority, in the unambiguous form: one traded price, same side, both queues exhausted before the update:
        # if the worse-priced order got anything, the better-priced one was served first in full (up to V/2)
        if len(prices) == 1 and len(okeys) >= 1:
            V = dd[prices[0]]
            group_orders = per_runner[(group, m, sel)]
            cands = []
            for o2 in group_orders:
                ss2 = tr.samples.get(o2) or []
                before = [x for x in ss2 if x["tick"] < t]
                if not before or o2 in cancel_effect and cancel_effect[o2] <= t:
                    continue
                b4 = before[-1]
                if b4["status"] not in RESTING or b4["srem"] <= 0:
                    continue
                cands.append((o2, b4))
            sides = {c[1]["side"] for c in cands}
            if len(sides) == 1 and len(cands) >= 2 and all(c[1]["piq"] == 0 for c in cands):
                side = sides.pop()
                elig_c = [c for c in cands if (prices[0] >= c[1]["price"] if side == "BACK" else prices[0] <= c[1]["price"])]
                for a in elig_c:
                    for b_ in elig_c:
                        better = a[1]["price"] < b_[1]["price"] if side == "BACK" else a[1]["price"] > b_[1]["price"]
                        if not better:
                            continue
                        out.rule("priority")
                        fa = fills.get(a[0], (0.0,))[0]
                        fb = fills.get(b_[0], (0.0,))[0]
                        if fb > 0.011 and fa < min(a[1]["srem"], V / 2.0) - 0.011:
                            out.v("worse-priced-order-served-before-better", {"side": side, "isolation": isolation}, better=a[0], worse=b_[0], fill_better=fa, fill_worse=fb, rem_better=a[1]["srem"], traded=V, tick=t)


def _pl(p):
    return {k: p.get(k) for k in ("o", "tick", "side", "price", "size", "rem", "piq", "atb", "atl", "frags")}


# -------------------------------------------------------------------------------------------
# C02 refused requests change nothing; accepted requests are sent exactly once
# -------------------------------------------------------------------------------------------

LIMITS = {"Betfair": {"PLACE": 200, "CANCEL": 60, "UPDATE": 60, "REPLACE": 60}, "Betdaq": {"PLACE": 10, "CANCEL": 10, "UPDATE": 50}}
NEW_ORDER_MAY_CHANGE = {"status", "nlog", "violation_msg", "client", "complete", "views"}


def unexecuted_packages(tr, case):
    """Backtests: packages handed to the simulated exchange that were never executed although their own market kept updating for longer
    than latency + bet delay after the request (a package is due at the first update of its market more than that after the request)."""
    cfg = case.get("config", {}) if case else {}
    done = {e["pid"] for e in tr.effects}
    lost = []
    for p in tr.packages:
        if p["pid"] in done:
            continue
        lat = cfg.get(LAT_KEYS[p["kind"]], LAT_DEFAULT[LAT_KEYS[p["kind"]]])
        d_ms = int(round((lat + (p.get("bet_delay") or 0 if p["kind"] in ("PLACE", "REPLACE") else 0)) * 1000))
        if not (0 <= p["tick"] < len(tr.ticks)) or tr.ticks[p["tick"]]["pt"] is None:
            continue
        t0 = tr.ticks[p["tick"]]["pt"]
        later = [tk["pt"] for tk in tr.ticks[p["tick"] + 1 :] if tk["market"] == p["market"] and tk["pt"] is not None]
        if any(pt - t0 > d_ms + 1 for pt in later):
            lost.append(p)
    return lost


def c02_requests(tr, out, exchange="Betfair", exec_class="Simulated"):
    # a request that a client control refused (the control raised, observed at the control itself) is a refused request: it must not
    # come back accepted
    reqs_by_o = collections.defaultdict(list)
    for r in tr.requests:
        reqs_by_o[(r["o"], r["kind"])].append(r)
    for c in getattr(tr, "mtc", ()):
        if not c.get("raised"):
            continue
        cands = [r for r in reqs_by_o.get((c["o"], c["kind"]), ()) if r["seq"] < c["seq"]]
        if not cands:
            continue
        r = cands[-1]
        out.rule("control-refusal")
        if r.get("result") and "exc" not in r and not r.get("force"):
            out.v("request-accepted-although-a-client-control-refused-it", {"kind": r["kind"], "exec": exec_class}, request=_rq(r), control=dict(c, now=str(c.get("now"))))
    accepted = collections.Counter()
    req_order = collections.defaultdict(list)  # (tx, kind, mv) -> [okey...] in request order
    for r in tr.requests:
        kind = r["kind"]
        refused = r.get("result") is False or "exc" in r
        b, a = r["before"], r.get("after")
        if refused and b is not None and a is not None:
            out.rule("refused")
            diff = view_diff(b, a)
            # a refused NEW order (never in the blotter) may be (re-)marked as a violation, whatever request is refused on it
            new_order = not b["in_blotter"] and b["status"] in (None, "VIOLATION")
            empty_ctx = ((), (), False, None, None)
            if "rc" in diff and {b["rc"], a["rc"]} <= {None, empty_ctx}:
                diff.pop("rc")  # an empty runner context created lazily equals no context
            if new_order:
                for k in NEW_ORDER_MAY_CHANGE:
                    diff.pop(k, None)
                if kind == "PLACE" and r.get("result") is False and (a["status"] != "VIOLATION" or a["in_blotter"]):
                    out.v("refused-new-order-not-marked", {"exec": exec_class}, request=_rq(r), after=a)
            if diff:
                out.v(
                    "refused-request-mutated-state",
                    {"kind": kind, "status": b["status"], "fields": ",".join(sorted(diff)), "how": r.get("exc", "refused"), "new_order": new_order, "exec": exec_class},
                    request=_rq(r),
                    diff=diff,
                    msg=r.get("exc_msg"),
                )
            if r["pend"][0] != r["pend"][1]:
                out.v("refused-request-left-something-queued", {"kind": kind, "exec": exec_class}, request=_rq(r), pending=r["pend"])
            out.d("c02ref:%s:%s:%s:%s" % (kind, b["status"], r.get("exc", "refused"), r["force"]))
        elif r.get("result") is True and (kind != "PLACE" or r["execute"]):
            accepted[(r["o"], kind)] += 1
            out.rule("accepted")
            if kind == "PLACE" and b is not None and b["in_blotter"]:
                # forcing skips the controls but nothing else: an order that is already in the blotter cannot be placed again
                out.v("placement-of-order-already-in-blotter-accepted", {"force": r["force"], "status": b["status"], "exec": exec_class}, request=_rq(r))
            out.d("c02acc:%s:%s" % (kind, r["force"]))
    sent = collections.Counter()
    for p in tr.packages:
        out.rule("package")
        kind = p["kind"]
        n = len(p["orders"])
        lim = LIMITS[exchange].get(kind)
        tags = {"kind": kind, "exchange": exchange}
        if lim is not None and n > lim:
            out.v("package-exceeds-per-call-limit", tags, n=n, limit=lim)
        if n == 0:
            out.v("empty-package", tags, package=p)
        for o in p["orders"]:
            sent[(o, kind)] += 1
        out.d("c02pkg:%s:%d" % (kind, n if n in (1, 2, lim) else min(n, 3)))
    for key in set(accepted) | set(sent):
        if accepted[key] != sent[key]:
            out.v(
                "accepted-request-not-sent-exactly-once",
                {"kind": key[1], "sent": min(sent[key], 2), "accepted": min(accepted[key], 2), "exchange": exchange},
                order=key[0],
                accepted=accepted[key],
                sent=sent[key],
            )
    # grouping and order: within one transaction and kind, each package holds one market version and the orders
    # of a (kind, version) group appear in request order across its chunks
    by_tx = collections.defaultdict(list)
    for r in tr.requests:
        if r.get("result") is True and (r["kind"] != "PLACE" or r["execute"]):
            by_tx[(r["tx"], r["kind"])].append(r)
    pk_by_kind = collections.defaultdict(list)
    for p in tr.packages:
        pk_by_kind[p["kind"]].append(p)
    mv_of = {}
    for r in tr.requests:
        if r.get("result") is True:
            mv_of[(r["o"], r["kind"], r["seq"])] = r.get("mv")
    for (tx, kind), reqs in by_tx.items():
        groups = collections.OrderedDict()
        for r in reqs:
            groups.setdefault(r.get("mv"), []).append(r["o"])
        for mv, okeys in groups.items():
            out.rule("group-order")
            # packages of this kind and version that contain these orders, in emission order
            got = []
            seen = set(okeys)
            for p in pk_by_kind[kind]:
                if p["orders"] and set(p["orders"]) <= seen and p["mv"] == mv:
                    got += p["orders"]
            want = okeys
            # the same order may legitimately be requested again in a later transaction; compare as subsequence
            if [o for o in got if o in seen][: len(want)] != want and sorted(got) == sorted(want):
                out.v("orders-out-of-request-order", {"kind": kind, "exchange": exchange}, want=want[:20], got=got[:20])
    # every order of a package was requested with the package's market version
    last_req = {}
    events = sorted([("r", r["seq"], r) for r in tr.requests if r.get("result") is True] + [("p", p["seq"], p) for p in tr.packages], key=lambda x: x[1])
    for typ, _, x in events:
        if typ == "r":
            last_req[(x["o"], x["kind"])] = x.get("mv")
        else:
            out.rule("package-version")
            bad = [o for o in x["orders"] if last_req.get((o, x["kind"]), x["mv"]) != x["mv"]]
            if bad:
                out.v("package-mixes-market-versions", {"kind": x["kind"], "exchange": exchange}, package=x, offending=bad[:5])
    for e in tr.tx_ends:
        out.rule("tx-end")
        if any(e["pending"]) or e["flag"]:
            out.v("requests-left-queued-after-transaction", {"exchange": exchange, "exc": e["exc"] or "-"}, end=e)
