"""Fresh-process runner for C14: executes one scenario and prints its normalised ledger.

The wall clock seen by the process is shifted (VERIF_CLOCK_SHIFT seconds) by replacing datetime.datetime
BEFORE flumine is imported; PYTHONHASHSEED is set by the parent."""
import os
import sys
import json
import hashlib
import datetime as _dt

shift = float(os.environ.get("VERIF_CLOCK_SHIFT", "0"))
if shift:
    _orig = _dt.datetime

    class ShiftedDateTime(_orig):
        @classmethod
        def utcnow(cls):
            return _orig.utcnow() + _dt.timedelta(seconds=shift)

        @classmethod
        def now(cls, tz=None):
            return _orig.now(tz) + _dt.timedelta(seconds=shift)

    _dt.datetime = ShiftedDateTime

from vf import simrun  # noqa: E402
from vf.checks.c13 import ledger  # noqa: E402


def main():
    case = json.load(open(sys.argv[1]))
    slow = float(os.environ.get("VERIF_SLOW", "0") or 0)
    if slow:
        # a slower machine: wall-clock time passes between updates (the simulated clock is unaffected)
        import time
        from flumine import FlumineSimulation

        orig = FlumineSimulation._process_market_books

        def slowed(self, event):
            time.sleep(slow)
            return orig(self, event)

        FlumineSimulation._process_market_books = slowed
    tr = simrun.run_case(case)
    rows = {}
    for s in tr.strategies:
        rows[s.name] = ledger(tr, s.name, "end")
    blob = json.dumps(rows, sort_keys=True, default=str)
    print(json.dumps({"hash": hashlib.sha1(blob.encode()).hexdigest(), "orders": sum(len(v) for v in rows.values()), "ticks": len(tr.ticks), "abort": tr.abort, "rows": rows if os.environ.get("VERIF_DUMP") else None}, default=str))


if __name__ == "__main__":
    main()
