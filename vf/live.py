"""Live-mode harness: an in-process Betfair double (bet table + call log + fault plans), a controllable
executor that replaces the execution thread pool (handler granularity), and helpers to feed market books and
order-stream snapshots into an un-run `Flumine` instance.

Fidelity is limited to what flumine's own handlers consume (see DESIGN.md Appendix B').
"""
import time as _time
import copy
import collections
import datetime as _dt
import itertools

from . import env

env.setup()

import flumine  # noqa: E402
from flumine import Flumine, clients, BaseStrategy, config as fconfig  # noqa: E402
from flumine.events.events import MarketBookEvent, CurrentOrdersEvent  # noqa: E402
from flumine.streams.historicalstream import FlumineHistoricalGeneratorStream, HistoricListener  # noqa: E402
from betfairlightweight import resources, exceptions as bflw_exc  # noqa: E402

REAL_DATETIME = _dt.datetime
EPOCH = _dt.datetime(2022, 4, 19, 18, 0, 0)


def _iso(dt):
    return dt.strftime("%Y-%m-%dT%H:%M:%S.") + "%03dZ" % (dt.microsecond // 1000)


class _Memo(Exception):
    def __init__(self, response):
        self.response = response


def _memoised(fn):
    def wrapper(self, *a, **kw):
        try:
            return fn(self, *a, **kw)
        except _Memo as m:
            return m.response

    wrapper.__name__ = fn.__name__
    return wrapper


class Exchange:
    """Sequential model of the exchange: unique bet ids make every history unambiguous."""

    def __init__(self, strategy_ref=None):
        self.bets = collections.OrderedDict()
        self._bet = itertools.count(300000000001)
        self.calls = []
        self.plan = None  # callable(call_record) -> dict(raise_=exc or None, outcomes=[...], order=[...], omit=set())
        self.now = EPOCH
        self.strategy_ref = strategy_ref if strategy_ref is not None else fconfig.customer_strategy_ref
        self.place_memo = {}  # customer_ref -> response json (re-submission returns the original outcome)
        self.current_account = None  # username of the account whose endpoint is being called (see _AccountBetting)
        self.account_errors = []
        self.remember = False  # set while LiveWorld.exchange_process runs
        self.memo = {}  # (kind, customer_ref) -> (resource class, kwargs): the exchange has already processed this call

    # ---- helpers
    def tick(self, ms=1):
        self.now = self.now + _dt.timedelta(milliseconds=ms)
        return self.now

    def _decide(self, kind, market_id, instructions, customer_ref):
        n_prev = sum(1 for c in self.calls if c["customer_ref"] == customer_ref and c["kind"] == kind)
        rec = {"kind": kind, "market_id": market_id, "instructions": copy.deepcopy(instructions), "customer_ref": customer_ref, "attempt": n_prev + 1, "n": len(self.calls), "account": self.current_account}
        if (kind, customer_ref) in self.memo:
            # the exchange processed this request earlier (LiveWorld.exchange_process); this is the response being delivered
            rec["memo_hit"] = True
            rec["answered"] = True
            rec["reports"] = []
            self.calls.append(rec)
            cls, kw = self.memo[(kind, customer_ref)]
            raise _Memo(cls(**copy.deepcopy(kw), elapsed_time=0.01))
        self.calls.append(rec)
        plan = self.plan(rec) if self.plan else {}
        plan = plan or {}
        rec["plan"] = {k: (v.__name__ if isinstance(v, type) else v) for k, v in plan.items() if k != "outcomes"}
        if plan.get("raise_"):
            rec["answered"] = False
            rec["raised"] = plan["raise_"].__name__
            exc = plan["raise_"]
            if not isinstance(exc, type):
                raise exc(kind)  # a factory: builds the exception the way betfairlightweight wraps a transport failure
            raise exc(None) if exc is bflw_exc.APIError else exc("injected")
        rec["answered"] = True
        return rec, plan

    @staticmethod
    def _mark(js, plan):
        """report-level error code of an execution report (the matcher / service failed for the whole request)"""
        if plan.get("report_error"):
            js["errorCode"] = plan["report_error"]
        return js

    def _outcome(self, plan, i):
        oc = plan.get("outcomes")
        if oc and i < len(oc) and oc[i]:
            return oc[i]
        return {"status": "SUCCESS"}

    # ---- API: betting_client.betting.*
    @_memoised
    def place_orders(self, market_id, instructions, customer_ref=None, market_version=None, customer_strategy_ref=None, async_=None, session=None):
        rec, plan = self._decide("PLACE", market_id, instructions, customer_ref)
        if customer_ref in self.place_memo:
            rec["reports"] = self.place_memo[customer_ref]["instructionReports"]
            rec["deduplicated"] = True
            if plan.get("lose_reply"):
                rec["reply_lost"] = True
                raise _read_timeout("PLACE")
            return resources.PlaceOrders(**copy.deepcopy(self.place_memo[customer_ref]), elapsed_time=0.01)
        reports = []
        for i, ins in enumerate(instructions):
            oc = self._outcome(plan, i)
            rep = {"status": oc["status"], "instruction": _place_instruction_json(ins)}
            if oc["status"] == "SUCCESS" or (oc["status"] == "TIMEOUT" and oc.get("exists")):
                bet = self._new_bet(market_id, ins, customer_strategy_ref)
                if oc.get("take"):
                    self.fill(bet["betId"], bet["sizeRemaining"] if oc["take"] == "full" else round(bet["sizeRemaining"] / 2, 2))
                if oc.get("expire"):
                    bet["sizeCancelled"] = bet["sizeRemaining"]
                    bet["sizeRemaining"] = 0.0
                    bet["status"] = "EXECUTION_COMPLETE"
                if oc["status"] == "SUCCESS":
                    if async_:
                        rep["orderStatus"] = "PENDING"
                    else:
                        rep.update(
                            betId=bet["betId"],
                            placedDate=bet["placedDate"],
                            averagePriceMatched=bet["averagePriceMatched"],
                            sizeMatched=bet["sizeMatched"],
                            orderStatus="EXPIRED" if oc.get("expire") else bet["status"],
                        )
            elif oc["status"] == "FAILURE":
                rep["errorCode"] = oc.get("error", "ERROR_IN_ORDER")
            reports.append(rep)
        st = "SUCCESS" if all(r["status"] == "SUCCESS" for r in reports) else ("TIMEOUT" if any(r["status"] == "TIMEOUT" for r in reports) else "FAILURE")
        js = self._mark({"marketId": market_id, "status": st, "customerRef": customer_ref, "instructionReports": reports}, plan)
        self.place_memo[customer_ref] = js
        rec["reports"] = reports
        if self.remember:
            self.memo[("PLACE", customer_ref)] = (resources.PlaceOrders, js)
        if plan.get("lose_reply"):
            # the exchange has processed the request; its answer never arrives (read timeout).  A re-submission under the same
            # customerRef is recognised by the exchange and answered with the original outcome
            rec["reply_lost"] = True
            raise _read_timeout("PLACE")
        return resources.PlaceOrders(**copy.deepcopy(js), elapsed_time=0.01)

    @_memoised
    def cancel_orders(self, market_id=None, instructions=None, customer_ref=None, session=None):
        rec, plan = self._decide("CANCEL", market_id, instructions, customer_ref)
        reports = []
        for i, ins in enumerate(instructions):
            oc = self._outcome(plan, i)
            bet = self.bets.get(str(ins["betId"]))
            rep = {"status": oc["status"], "instruction": {"betId": ins["betId"], "sizeReduction": ins.get("sizeReduction")}}
            if oc["status"] == "SUCCESS":
                if bet is None or bet["sizeRemaining"] <= 0:
                    rep["status"] = "FAILURE"
                    rep["errorCode"] = "BET_TAKEN_OR_LAPSED"
                else:
                    c = min(ins.get("sizeReduction") or bet["sizeRemaining"], bet["sizeRemaining"])
                    bet["sizeRemaining"] = round(bet["sizeRemaining"] - c, 2)
                    bet["sizeCancelled"] = round(bet["sizeCancelled"] + c, 2)
                    bet["cancelledDate"] = _iso(self.tick())
                    if bet["sizeRemaining"] == 0:
                        bet["status"] = "EXECUTION_COMPLETE"
                    rep["sizeCancelled"] = c
                    rep["cancelledDate"] = bet["cancelledDate"]
            elif oc["status"] == "FAILURE":
                rep["errorCode"] = oc.get("error", "BET_ACTION_ERROR")
                if rep["errorCode"] == "BET_TAKEN_OR_LAPSED" and bet is not None and bet["sizeRemaining"] > 0:
                    self.lapse(bet["betId"])  # the exchange only says so when the bet really is gone
            reports.append(rep)
        order = plan.get("order")
        if order:
            reports = [reports[j] for j in order if j < len(reports)]
        omit = plan.get("omit") or ()
        returned = [r for j, r in enumerate(reports) if j not in omit]
        st = "SUCCESS" if all(r["status"] == "SUCCESS" for r in reports) else "FAILURE"
        rec["reports"] = returned
        rec["all_reports"] = reports
        js = self._mark(dict(marketId=market_id, status=st, customerRef=customer_ref, instructionReports=copy.deepcopy(returned)), plan)
        if self.remember:
            self.memo[("CANCEL", customer_ref)] = (resources.CancelOrders, js)
        return resources.CancelOrders(**copy.deepcopy(js), elapsed_time=0.01)

    @_memoised
    def update_orders(self, market_id=None, instructions=None, customer_ref=None, session=None):
        rec, plan = self._decide("UPDATE", market_id, instructions, customer_ref)
        reports = []
        for i, ins in enumerate(instructions):
            oc = self._outcome(plan, i)
            bet = self.bets.get(str(ins["betId"]))
            rep = {"status": oc["status"], "instruction": {"betId": ins["betId"], "newPersistenceType": ins["newPersistenceType"]}}
            if oc["status"] == "SUCCESS":
                if bet is None or bet["sizeRemaining"] <= 0:
                    rep["status"] = "FAILURE"
                    rep["errorCode"] = "BET_TAKEN_OR_LAPSED"
                else:
                    bet["persistenceType"] = ins["newPersistenceType"]
            elif oc["status"] == "FAILURE":
                rep["errorCode"] = oc.get("error", "BET_ACTION_ERROR")
            reports.append(rep)
        st = "SUCCESS" if all(r["status"] == "SUCCESS" for r in reports) else "FAILURE"
        rec["reports"] = reports
        js = self._mark(dict(marketId=market_id, status=st, customerRef=customer_ref, instructionReports=copy.deepcopy(reports)), plan)
        if self.remember:
            self.memo[("UPDATE", customer_ref)] = (resources.UpdateOrders, js)
        return resources.UpdateOrders(**copy.deepcopy(js), elapsed_time=0.01)

    @_memoised
    def replace_orders(self, market_id=None, instructions=None, customer_ref=None, market_version=None, async_=None, session=None):
        rec, plan = self._decide("REPLACE", market_id, instructions, customer_ref)
        reports = []
        for i, ins in enumerate(instructions):
            oc = self._outcome(plan, i)
            bet = self.bets.get(str(ins["betId"]))
            crep = {"status": oc["status"], "instruction": {"betId": ins["betId"]}}
            prep = {"status": "FAILURE", "errorCode": "RELATED_ACTION_FAILED"}
            status = oc["status"]
            if oc["status"] == "SUCCESS":
                if bet is None or bet["sizeRemaining"] <= 0:
                    crep["status"] = status = "FAILURE"
                    crep["errorCode"] = "BET_TAKEN_OR_LAPSED"
                else:
                    c = bet["sizeRemaining"]
                    bet["sizeRemaining"] = 0.0
                    bet["sizeCancelled"] = round(bet["sizeCancelled"] + c, 2)
                    bet["cancelledDate"] = _iso(self.tick())
                    bet["status"] = "EXECUTION_COMPLETE"
                    crep["sizeCancelled"] = c
                    crep["cancelledDate"] = bet["cancelledDate"]
                    pins = {
                        "selectionId": bet["selectionId"],
                        "handicap": bet["handicap"],
                        "side": bet["side"],
                        "orderType": "LIMIT",
                        "customerOrderRef": bet["customerOrderRef"],
                        "limitOrder": {"size": c, "price": ins["newPrice"], "persistenceType": bet["persistenceType"]},
                    }
                    if oc.get("place", "SUCCESS") == "SUCCESS":
                        nb = self._new_bet(market_id, pins, bet["customerStrategyRef"])
                        prep = {
                            "status": "SUCCESS",
                            "instruction": _place_instruction_json(pins),
                            "betId": nb["betId"],
                            "placedDate": nb["placedDate"],
                            "averagePriceMatched": 0.0,
                            "sizeMatched": 0.0,
                            "orderStatus": "EXECUTABLE",
                        }
                        if async_:
                            # asked to replace asynchronously: the new bet is reported PENDING, its bet id comes with the order stream
                            prep = {"status": "SUCCESS", "instruction": _place_instruction_json(pins), "orderStatus": "PENDING"}
                    else:
                        prep = {"status": oc["place"], "instruction": _place_instruction_json(pins), "errorCode": "ERROR_IN_ORDER"}
                        status = "FAILURE"
            elif oc["status"] == "FAILURE":
                crep["errorCode"] = oc.get("error", "BET_ACTION_ERROR")
                if crep["errorCode"] == "BET_TAKEN_OR_LAPSED" and bet is not None and bet["sizeRemaining"] > 0:
                    self.lapse(bet["betId"])
            reports.append({"status": status, "cancelInstructionReport": crep, "placeInstructionReport": prep})
        st = "SUCCESS" if all(r["status"] == "SUCCESS" for r in reports) else "FAILURE"
        rec["reports"] = reports
        js = self._mark(dict(marketId=market_id, status=st, customerRef=customer_ref, instructionReports=copy.deepcopy(reports)), plan)
        if self.remember:
            self.memo[("REPLACE", customer_ref)] = (resources.ReplaceOrders, js)
        return resources.ReplaceOrders(**copy.deepcopy(js), elapsed_time=0.01)

    # ---- bet table
    def _new_bet(self, market_id, ins, strategy_ref):
        bid = str(next(self._bet))
        ot = ins["orderType"]
        if ot == "LIMIT":
            lo = ins["limitOrder"]
            price, size, pers, liab = lo["price"], lo.get("size"), lo.get("persistenceType") or "LAPSE", 0.0
            if size is None and lo.get("betTargetType"):
                # no stake given: the exchange works it out from the bet target
                size = round(lo["betTargetSize"] / (price if lo["betTargetType"] == "PAYOUT" else (price - 1.0)), 2)
        elif ot == "LIMIT_ON_CLOSE":
            lo = ins["limitOnCloseOrder"]
            price, size, pers, liab = lo["price"], 0.0, "MARKET_ON_CLOSE", lo["liability"]
        else:
            lo = ins["marketOnCloseOrder"]
            price, size, pers, liab = 0.0, 0.0, "MARKET_ON_CLOSE", lo["liability"]
        bet = {
            "betId": bid,
            "marketId": market_id,
            "selectionId": ins["selectionId"],
            "handicap": ins.get("handicap") or 0,
            "side": ins["side"],
            "orderType": ot,
            "persistenceType": pers,
            "priceSize": {"price": price, "size": size},
            "bspLiability": liab,
            "averagePriceMatched": 0.0,
            "sizeMatched": 0.0,
            "sizeRemaining": size,
            "sizeCancelled": 0.0,
            "sizeLapsed": 0.0,
            "sizeVoided": 0.0,
            "status": "EXECUTABLE",
            "placedDate": _iso(self.tick()),
            "customerOrderRef": ins.get("customerOrderRef"),
            "customerStrategyRef": strategy_ref if strategy_ref is not None else self.strategy_ref,
            "regulatorCode": "GIBRALTAR REGULATOR",
            "account": self.current_account,
        }
        self.bets[bid] = bet
        return bet

    def fill(self, bet_id, size, price=None):
        b = self.bets[str(bet_id)]
        size = round(min(size, b["sizeRemaining"]), 2)
        if size <= 0:
            return 0.0
        price = price if price is not None else b["priceSize"]["price"]
        tot = b["sizeMatched"] + size
        b["averagePriceMatched"] = round((b["averagePriceMatched"] * b["sizeMatched"] + price * size) / tot, 6)  # the exchange reports the average unrounded
        b["sizeMatched"] = round(tot, 2)
        b["sizeRemaining"] = round(b["sizeRemaining"] - size, 2)
        b["matchedDate"] = _iso(self.tick())
        if b["sizeRemaining"] == 0:
            b["status"] = "EXECUTION_COMPLETE"
        return size

    def void(self, bet_id):
        """the runner is withdrawn: whatever was matched or still open is voided, the bet is complete"""
        b = self.bets[str(bet_id)]
        b["sizeVoided"] = round(b["sizeVoided"] + b["sizeMatched"] + b["sizeRemaining"] + (b["bspLiability"] if b["orderType"] != "LIMIT" and not b["sizeMatched"] else 0.0), 2)
        b["sizeMatched"] = 0.0
        b["averagePriceMatched"] = 0.0
        b["sizeRemaining"] = 0.0
        b["status"] = "EXECUTION_COMPLETE"
        self.tick()

    def reconcile_sp(self, bet_id, sp):
        """the starting price is struck: an SP bet is matched at it (a limit-on-close bet only within its limit, otherwise it lapses)"""
        b = self.bets[str(bet_id)]
        if b["orderType"] == "LIMIT" or b["status"] != "EXECUTABLE":
            return
        lim = b["priceSize"]["price"]
        ok = b["orderType"] == "MARKET_ON_CLOSE" or (sp >= lim if b["side"] == "BACK" else sp <= lim)
        if ok:
            b["averagePriceMatched"] = sp
            b["sizeMatched"] = round(b["bspLiability"] if b["side"] == "BACK" else b["bspLiability"] / (sp - 1), 2)
            b["matchedDate"] = _iso(self.tick())
        else:
            b["sizeLapsed"] = 0.0
            b["lapsedDate"] = _iso(self.tick())
        b["status"] = "EXECUTION_COMPLETE"

    def lapse(self, bet_id):
        b = self.bets[str(bet_id)]
        if b["sizeRemaining"] > 0:
            b["sizeLapsed"] = round(b["sizeLapsed"] + b["sizeRemaining"], 2)
            b["sizeRemaining"] = 0.0
            b["lapsedDate"] = _iso(self.tick())
        b["status"] = "EXECUTION_COMPLETE"

    def table(self):
        return copy.deepcopy(self.bets)

    def snapshot(self, client, table=None, only=None):
        """CurrentOrdersEvent as OrderStream.handle_output builds it (order_book.client = client)."""
        table = self.bets if table is None else table
        cur = [{k: v for k, v in copy.deepcopy(b).items() if k != "account"} for b in table.values() if only is None or b["betId"] in only]
        co = resources.CurrentOrders(currentOrders=cur, moreAvailable=False, matches=[], streaming_unique_id=1, streaming_update=None, streaming_snap=False, publish_time=None, elapsed_time=0.0)
        co.client = client
        return CurrentOrdersEvent([co])


def _place_instruction_json(ins):
    out = {"selectionId": ins["selectionId"], "side": ins["side"], "orderType": ins["orderType"], "handicap": ins.get("handicap"), "customerOrderRef": ins.get("customerOrderRef")}
    for k in ("limitOrder", "limitOnCloseOrder", "marketOnCloseOrder"):
        if ins.get(k):
            out[k] = {a: b for a, b in ins[k].items() if b is not None}
    return out


class _AccountBetting:
    """The betting endpoint of ONE account: everything it is asked to do is booked under that account.  A cancel / update / replace for
    a bet that belongs to another account is recorded (`Exchange.account_errors`; the real exchange would not find the bet)."""

    def __init__(self, exchange, account):
        self.__dict__["_ex"] = exchange
        self.__dict__["_account"] = account

    def __getattr__(self, name):
        target = getattr(self._ex, name)
        if name not in ("place_orders", "cancel_orders", "update_orders", "replace_orders"):
            return target
        ex, account = self._ex, self._account

        def call(*a, **kw):
            ex.current_account = account
            if name != "place_orders":
                for ins in kw.get("instructions") or (a[1] if len(a) > 1 else ()):
                    b = ex.bets.get(str(ins.get("betId")))
                    if b is not None and b.get("account") not in (None, account):
                        ex.account_errors.append({"call": name, "through": account, "bet": b["betId"], "bet_account": b.get("account")})
            try:
                return target(*a, **kw)
            finally:
                ex.current_account = None

        return call

    def __setattr__(self, name, value):
        setattr(self._ex, name, value)


class FakeAPI:
    """Stands in for betfairlightweight.APIClient (never logs in, never touches the network)."""

    lightweight = False

    def __init__(self, exchange, username="live0"):
        self.betting = _AccountBetting(exchange, username)
        self.username = username
        self.session_timeout = 1200
        self.session_expired = False

        class _Account:
            @staticmethod
            def get_account_details():
                raise bflw_exc.APIError(None)

            @staticmethod
            def get_account_funds():
                raise bflw_exc.APIError(None)

        self.account = _Account()

    # what the framework calls when it is entered / left (`with framework:`), answered without any network
    def login(self):
        return None

    def logout(self):
        return None

    def keep_alive(self):
        return None


class ControlledExecutor:
    """Replaces BaseExecution._thread_pool: queued calls are released one at a time by the scheduler."""

    def __init__(self):
        self.queue = []
        self._threads = []
        self.done = 0
        self.errors = []
        self.propagate = False

        class _Q:
            def __init__(s, outer):
                s.outer = outer

            def qsize(s):
                return len(s.outer.queue)

        self._work_queue = _Q(self)

    def submit(self, fn, *a, **kw):
        self.queue.append((fn, a, kw))

    def run(self, i=0):
        fn, a, kw = self.queue.pop(i)
        self.done += 1
        try:
            return fn(*a, **kw)
        except Exception as e:  # noqa: BLE001
            # the real pool keeps an exception raised by a call in a Future nobody reads: the call just ends there.  Recorded for
            # the checks that judge execution calls (`errors`); re-raised where a check asked for it (`propagate`)
            import traceback

            tb = traceback.extract_tb(e.__traceback__)
            where = [f.name for f in tb if "/flumine/" in f.filename]
            self.errors.append({"call": fn.__name__, "exc": type(e).__name__, "where": where[-1] if where else None, "msg": str(e)[:200]})
            if self.propagate:
                raise
            return None

    def run_all(self):
        n = 0
        while self.queue:
            self.run(0)
            n += 1
        return n

    def shutdown(self, wait=True):
        pass


class LiveWorld:
    def __init__(self, strategies, exchange=None, n_clients=1, async_place=False, transaction_limit=None, market_files=(), usernames=None, paper=False, commissions=None, enter=False):
        # enter=True: the framework is entered as `Flumine.run()` does (`with self:`) - without workers and streams - so that whatever a live
        # instance sets up for itself when it starts is set up by flumine, not by this harness (e.g. after a backtest in the same process)
        self.entered = False
        if not enter:
            fconfig.simulated = False
        fconfig.async_place_orders = async_place
        self.exchange = exchange or Exchange()
        self.clients = []
        for i in range(n_clients):
            tl = transaction_limit[i] if isinstance(transaction_limit, (list, tuple)) else transaction_limit
            paper_i = paper[i] if isinstance(paper, (list, tuple)) else paper  # (a list: live and paper-trading clients side by side)
            kw = {"paper_trade": True} if paper_i else {}
            self.clients.append(clients.BetfairClient(FakeAPI(self.exchange, (usernames or ["live%d" % j for j in range(n_clients)])[i]), order_stream=False, transaction_limit=tl, **kw))
            if commissions:
                self.clients[-1].commission_base = commissions[i]
        self.fw = Flumine(client=self.clients[0])
        for c in self.clients[1:]:
            self.fw.add_client(c)
        for c in self.clients:
            c.account_details = None
        self.executor = ControlledExecutor()
        self.on_sleep = None  # one-shot callable(seconds): main-loop work done while a paper-trading call sleeps its latency
        self.fw.betfair_execution._thread_pool = self.executor
        if (any(paper) if isinstance(paper, (list, tuple)) else paper):
            # paper trading: the simulated execution runs its calls on its pool after sleeping the latency
            import flumine.execution.simulatedexecution as _se

            world = self

            class _NoSleep:
                def __getattr__(s, k):
                    return getattr(_time, k)

                @staticmethod
                def sleep(x):
                    # the pool thread waits out the latency here: whatever the main loop does meanwhile is done by `on_sleep`
                    hook, world.on_sleep = world.on_sleep, None
                    if hook is not None:
                        hook(x)
                    return None

            _se.time = _NoSleep()
            self.fw.simulated_execution._thread_pool.shutdown(wait=False)
            self.fw.simulated_execution._thread_pool = self.executor
        self.strategies = []

        class _S:
            def __init__(s, sid):
                s.stream_id = sid

        self.stream_id = 7
        for st in strategies:
            st.streams = [_S(self.stream_id)]
            self.fw.strategies(st, self.fw.clients, self.fw)
            self.strategies.append(st)
        self.gens = {}
        self.books = {}
        if enter:
            self.fw._add_default_workers = lambda: None
            self.fw.__enter__()
            self.entered = True
            for c in self.clients:
                c.account_details = None

    def add_strategy(self, st):
        """what BaseFlumine.add_strategy does, without opening streams"""
        stream_id = self.stream_id

        class _S:
            def __init__(s, sid):
                s.stream_id = sid

        st.streams = [_S(stream_id)]
        self.fw.strategies(st, self.fw.clients, self.fw)
        self.strategies.append(st)

    def add_market_file(self, path):
        stream = FlumineHistoricalGeneratorStream(file_path=path, listener=HistoricListener(max_latency=None), operation="marketSubscription", unique_id=self.stream_id)
        mid = path.rsplit("/", 1)[-1]
        self.gens[mid] = stream.get_generator()()
        return mid

    def next_book(self, mid):
        try:
            books = next(self.gens[mid])
        except StopIteration:
            return None
        self.fw._process_market_books(MarketBookEvent(books))
        self.books[mid] = books[0]
        return books[0]

    def exchange_process(self, i=0):
        """The exchange receives and processes queued request i NOW (bet table changes); the response is delivered to
        flumine later, when the executor runs the call.  Models an order-stream update overtaking an HTTP response."""
        fn, a, kw = self.executor.queue[i]
        pkg = a[0]
        if getattr(pkg, "_vf_exchanged", False):
            return False
        kind = fn.__name__.replace("execute_", "").upper()
        ex = self.exchange
        ex.remember = True
        try:
            if kind == "PLACE":
                ex.place_orders(market_id=pkg.market_id, instructions=pkg.place_instructions, customer_ref=pkg.id.hex, market_version=pkg.market_version, customer_strategy_ref=pkg.customer_strategy_ref, async_=pkg.async_)
            elif kind == "CANCEL":
                ins = list(pkg.cancel_instructions)
                if not ins:
                    return False
                ex.cancel_orders(market_id=pkg.market_id, instructions=ins, customer_ref=pkg.id.hex)
            elif kind == "UPDATE":
                ex.update_orders(market_id=pkg.market_id, instructions=pkg.update_instructions, customer_ref=pkg.id.hex)
            else:
                ex.replace_orders(market_id=pkg.market_id, instructions=pkg.replace_instructions, customer_ref=pkg.id.hex, market_version=pkg.market_version, async_=pkg.async_)
        except Exception:
            return False
        finally:
            ex.remember = False
        pkg._vf_exchanged = True
        return True

    def market(self, mid):
        return self.fw.markets.markets.get(mid)

    def deliver(self, event):
        self.fw._process_current_orders(event)

    def snapshot(self, client=None, table=None, only=None):
        self.deliver(self.exchange.snapshot(client or self.clients[0], table, only))

    def close(self):
        if self.entered:
            try:
                self.fw.__exit__(None, None, None)
            except Exception:  # noqa: BLE001
                pass
            self.entered = False
        for ex in (self.fw.simulated_execution, self.fw.betdaq_execution):
            try:
                ex._thread_pool.shutdown(wait=False)
            except Exception:
                pass


def _connection_dropped(kind):
    import requests

    return bflw_exc.APIError(None, "SportsAPING/v1.0/%sOrders" % kind.lower(), {"marketId": "-"}, requests.ConnectionError("('Connection aborted.', RemoteDisconnected('Remote end closed connection without response'))"))


def _read_timeout(kind):
    import requests

    return bflw_exc.APIError(None, "SportsAPING/v1.0/%sOrders" % kind.lower(), {"marketId": "-"}, requests.ReadTimeout("read timed out"))


def _api_error_reply(kind):
    return bflw_exc.APIError({"error": {"code": -32099, "message": "ANGX-0003", "data": {"APINGException": {"errorCode": "TOO_MANY_REQUESTS"}}}}, "SportsAPING/v1.0/%sOrders" % kind.lower(), {"marketId": "-"})


_connection_dropped.__name__ = "ConnectionDropped"
_read_timeout.__name__ = "ReadTimeout"
_api_error_reply.__name__ = "APIErrorReply"
API_ERRORS = {
    "APIError": bflw_exc.APIError,
    "InvalidResponse": bflw_exc.InvalidResponse,
    "StatusCodeError": bflw_exc.StatusCodeError,
    "ConnectionDropped": _connection_dropped,
    "ReadTimeout": _read_timeout,
    "APIErrorReply": _api_error_reply,
}
