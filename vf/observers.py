"""Online observers run inside the auditor's callbacks (they read live flumine objects and compare the
framework's own answers with independent recounts / brute force).  Violations go to tr.online."""
import random

from . import oracles as O
from .simrun import exposure_view, sname

TOL_SEL = 0.011


# ---- C15 ------------------------------------------------------------------------------------


def blotter_coherence(tr, market, phase):
    b = market.blotter
    fw = tr.framework
    shadow = tr.shadow.get(market.market_id, [])
    tr.counters["rule_blotter"] += 1
    ids = set()
    for o in shadow:
        k = tr.okey(o)
        ids.add(id(o))
        tr.counters["rule_blotter-order"] += 1
        st = o.trade.strategy
        views = {
            "orders": [x for x in b._orders.values() if x is o],
            "strategy": [x for x in b._strategy_orders.get(st, []) if x is o],
            "strategy_selection": [x for x in b._strategy_selection_orders.get((st, o.selection_id, o.handicap), []) if x is o],
            "client": [x for x in b._client_orders.get(o.client, []) if x is o],
            "client_strategy": [x for x in b._client_strategy_orders.get((o.client, st), []) if x is o],
            "trade": [x for x in b._trades.get(o.trade, []) if x is o],
        }
        for name, lst in views.items():
            if len(lst) != 1:
                tr.violate("C15", "order-not-exactly-once-in-view", {"view": name, "count": min(len(lst), 2), "cause": O.cause_of(tr.tags, k)}, order=k, phase=phase, tick=tr.tick)
        exp_client = getattr(o, "_vf_expected_client", None)
        if exp_client is not None and (o.client is not exp_client or not any(x is o for x in b._client_orders.get(exp_client, []))):
            tr.violate("C15", "replacement-filed-under-another-client", {}, order=k, tick=tr.tick, got=getattr(o.client, "username", None), expected=getattr(exp_client, "username", None))
        if b._orders.get(o.id) is not o:
            tr.violate("C15", "lookup-by-id-wrong-object", {}, order=k, tick=tr.tick)
        if fw.markets.get_order(market.market_id, o.id) is not o:
            tr.violate("C15", "markets-get-order-wrong-object", {}, order=k, tick=tr.tick)
        if b._trade_lookup.get(o.trade.id) is not o.trade:
            tr.violate("C15", "trade-lookup-wrong", {}, order=k, tick=tr.tick)
        in_live = sum(1 for x in b._live_orders if x is o)
        if in_live > 1:
            tr.violate("C15", "duplicate-in-live-list", {}, order=k, tick=tr.tick)
        if not o.complete and in_live == 0:
            tr.violate("C15", "live-order-missing-from-live-list", {"status": sname(o.status), "cause": O.cause_of(tr.tags, k)}, order=k, phase=phase, tick=tr.tick)
        if getattr(o, "_vf_replacement", False) or getattr(o, "_vf_adopted", False):
            if o.bet_id is not None and b.get_order_bet_id(o.bet_id) is not o:
                tr.violate("C15", "bet-id-lookup-wrong", {}, order=k, tick=tr.tick)
    if len(b._orders) != len(shadow) or any(id(x) not in ids for x in b._orders.values()):
        tr.violate("C15", "blotter-holds-unknown-or-missing-orders", {}, blotter=len(b._orders), shadow=len(shadow), tick=tr.tick)
    for name, coll in (("strategy", b._strategy_orders), ("strategy_selection", b._strategy_selection_orders), ("client", b._client_orders), ("client_strategy", b._client_strategy_orders), ("trade", b._trades)):
        n = sum(len(v) for v in coll.values())
        if n != len(shadow):
            tr.violate("C15", "view-size-differs", {"view": name}, n=n, shadow=len(shadow), tick=tr.tick)
    if any(id(x) not in ids for x in b._live_orders):
        tr.violate("C15", "live-list-holds-unknown-order", {}, tick=tr.tick)
    # filters
    strategies = {o.trade.strategy for o in shadow}
    for st in strategies:
        mine = [o for o in shadow if o.trade.strategy is st]
        for status in {o.status for o in mine}:
            tr.counters["rule_filter"] += 1
            got = b.strategy_orders(st, order_status=[status])
            exp = [o for o in mine if o.status == status]
            if [id(x) for x in got] != [id(x) for x in exp]:
                tr.violate("C15", "status-filter-wrong", {"view": "strategy"}, tick=tr.tick, status=sname(status))
        got = b.strategy_orders(st, matched_only=True)
        exp = [o for o in mine if o.size_matched > 0]
        if [id(x) for x in got] != [id(x) for x in exp]:
            tr.violate("C15", "matched-filter-wrong", {"view": "strategy"}, tick=tr.tick)
        for key in {(o.selection_id, o.handicap) for o in mine}:
            got = b.strategy_selection_orders(st, key[0], key[1], matched_only=True)
            exp = [o for o in mine if (o.selection_id, o.handicap) == key and o.size_matched > 0]
            if [id(x) for x in got] != [id(x) for x in exp]:
                tr.violate("C15", "matched-filter-wrong", {"view": "strategy_selection"}, tick=tr.tick)
    for cl in {o.client for o in shadow}:
        mine = [o for o in shadow if o.client is cl]
        got = b.client_orders(cl, matched_only=True)
        exp = [o for o in mine if o.size_matched > 0]
        if [id(x) for x in got] != [id(x) for x in exp]:
            tr.violate("C15", "matched-filter-wrong", {"view": "client"}, tick=tr.tick)


# ---- C10 ------------------------------------------------------------------------------------


def trade_accounting(tr, market, phase):
    if phase not in ("book", "closed"):
        return
    b = market.blotter
    for st in tr.framework.strategies:
        if st.name == "__audit__":
            continue
        by_ctx = {}
        for o in b._strategy_orders.get(st, []):
            by_ctx.setdefault(o.lookup, {}).setdefault(id(o.trade), (o.trade, []))[1].append(o)
        for lookup, ctx in list(st._invested.items()):
            if lookup[0] != market.market_id:
                continue
            trades = by_ctx.get(lookup, {})
            tr.counters["rule_recount"] += 1
            placed = {tid: t for tid, (t, os_) in trades.items() if id(t) in tr.placed_trades}
            own_exc = getattr(tr, "own_exception_trades", ())
            if any(t.pending_orders or tr.tkey(t) in own_exc for t in placed.values()):
                continue  # (a `with trade:` block of the strategy that raised leaves its trade PENDING by design)
            live = [t for tid, (t, os_) in trades.items() if id(t) in tr.placed_trades and any(not o.complete for o in t.orders if o.status is not None)]
            causes = "+".join(sorted({O.cause_of(tr.tags, tr.okey(o)) for tid, (t, os_) in trades.items() for o in os_} - {"-"})) or "-"
            if ctx.live_trade_count != len(live):
                # mechanism tag: a further order was placed in a trade that had completed, and that order completed (voided with its
                # runner, lapsed at a suspension) before its placement was executed - the trade still reads COMPLETE
                reused = any(id(t) in tr.reused_complete_trades and t.status.name == "COMPLETE" and t.id in ctx.live_trades and all(o.complete for o in t.orders if o.status is not None) and any(o.complete and not o.bet_id and sname(o.status) == "EXECUTION_COMPLETE" for o in t.orders) for t in placed.values())
                tr.violate("C10", "live-trade-count-differs", {"cause": causes, "direction": "leak" if ctx.live_trade_count > len(live) else "under", "reused": "completed-before-executed" if reused else "-"}, strategy=st.name, lookup=lookup, ctx=ctx.live_trade_count, recount=len(live), tick=tr.tick, phase=phase)
            if ctx.trade_count != len(placed):
                tr.violate("C10", "trade-count-differs", {"cause": causes}, strategy=st.name, lookup=lookup, ctx=ctx.trade_count, recount=len(placed), tick=tr.tick)
            for tid, (t, os_) in trades.items():
                if id(t) not in tr.placed_trades or t.pending_orders:
                    continue
                tr.counters["rule_trade-status"] += 1
                placed_orders = [o for o in t.orders if o.status is not None]
                all_complete = all(o.complete for o in placed_orders)
                tk = tr.tkey(t)
                # (a further order placed in a trade that had completed brings the trade back to life when that order is executed;
                # until then - the request is on its way - the trade still reads COMPLETE)
                revived_in_flight = id(t) in tr.reused_complete_trades and all(o.complete or sname(o.status) == "PENDING" for o in placed_orders)
                if t.status.name == "COMPLETE" and not all_complete and not revived_in_flight:
                    tr.violate("C10", "trade-complete-with-live-order", {"cause": causes}, trade=tk, tick=tr.tick, statuses=[sname(o.status) for o in t.orders])
                if t.status.name == "LIVE" and all_complete and placed_orders and len(placed_orders) == len(t.orders):
                    tr.violate("C10", "trade-live-with-all-orders-complete", {"cause": causes, "statuses": ",".join(sorted({sname(o.status) for o in t.orders}))}, trade=tk, tick=tr.tick)
                if t.status.name == "PENDING":
                    tr.violate("C10", "trade-left-pending", {"cause": causes}, trade=tk, tick=tr.tick)
                # a starting-price order that the exchange accepted stays open until the starting price is struck (or its runner
                # is withdrawn / the market closes): its trade is live until then, whatever the order's local status says
                mb = market.market_book
                if mb is not None and mb.status != "CLOSED" and not mb.bsp_reconciled and phase == "book" and tr.framework.SIMULATED:  # (backtests: the file is the exchange)
                    active = {(r.selection_id, r.handicap) for r in mb.runners if r.status == "ACTIVE"}
                    sp_open = [o for o in placed_orders if o.order_type.ORDER_TYPE.name != "LIMIT" and o.bet_id and (o.selection_id, o.handicap) in active and not (o.simulated and o.simulated.size_voided)]
                    if sp_open:
                        tr.counters["rule_sp-open"] += 1
                        if t.status.name == "COMPLETE" or any(o.complete for o in sp_open):
                            tr.violate("C10", "trade-or-order-complete-while-sp-order-open", {"otype": sp_open[0].order_type.ORDER_TYPE.name, "trade": t.status.name}, trade=tk, tick=tr.tick, statuses=[sname(o.status) for o in t.orders])


# ---- C16 ------------------------------------------------------------------------------------


def exposures(tr, market, phase, rng=None):
    if phase not in ("book", "closed"):
        return
    b = market.blotter
    mb = market.market_book
    rng = rng or tr.rng
    for st in tr.framework.strategies:
        if st.name == "__audit__":
            continue
        # the strategy's orders: those that were filed in this blotter (hook on the blotter) whose trade belongs to this very
        # strategy object - not the blotter's own per-strategy index, which is part of what is being checked
        orders = [o for o in tr.shadow.get(market.market_id, []) if o.trade.strategy is st]
        if not orders:
            continue
        by_sel = {}
        for o in orders:
            by_sel.setdefault((o.selection_id, o.handicap), []).append(o)
        per = {}
        for sel, os_ in by_sel.items():
            views = [exposure_view(o) for o in os_]
            w, l = O.selection_wpp(views)
            per[sel] = (w, l)
            got = b.get_exposures(st, (market.market_id, sel[0], sel[1]))
            tr.counters["rule_selection-exposure"] += 1
            counted = sum(1 for v in views if v["status"] not in O.EXCLUDED)
            tr.distinct.add("c16:%d:%s:%s" % (min(counted, 4), "".join(sorted({v["otype"][0] + v["side"][0] for v in views})), "".join(sorted({v["status"][:3] for v in views}))))
            if abs(got["worst_possible_profit_on_win"] - w) > TOL_SEL or abs(got["worst_possible_profit_on_lose"] - l) > TOL_SEL:
                tr.violate("C16", "selection-exposure-differs", {"types": "".join(sorted({v["otype"][0] for v in views}))}, views=views, got=got, expected=(w, l), tick=tr.tick)
            se = b.selection_exposure(st, (market.market_id, sel[0], sel[1]))
            if abs(se - max(0.0, -min(w, l))) > TOL_SEL:
                tr.violate("C16", "selection-exposure-figure-differs", {}, views=views, got=se, expected=max(0.0, -min(w, l)), tick=tr.tick)
            # exclusion / prospective order handled as if removed / added
            if rng.random() < 0.5:
                ex = rng.choice(os_)
                views2 = [exposure_view(o) for o in os_ if o is not ex]
                w2, l2 = O.selection_wpp(views2)
                got2 = b.get_exposures(st, (market.market_id, sel[0], sel[1]), exclusion=ex)
                tr.counters["rule_exclusion"] += 1
                if abs(got2["worst_possible_profit_on_win"] - w2) > TOL_SEL or abs(got2["worst_possible_profit_on_lose"] - l2) > TOL_SEL:
                    tr.violate("C16", "exclusion-not-as-removed", {}, views=views, excluded=tr.okey(ex), got=got2, expected=(w2, l2), tick=tr.tick)
        # prospective order handled exactly as if it had been added to the book (selection and market figures)
        if mb is not None and rng.random() < 0.4:
            from flumine.order.trade import Trade
            from flumine.order.ordertype import LimitOrder, MarketOnCloseOrder

            active = [(r.selection_id, r.handicap) for r in mb.runners if r.status == "ACTIVE"] or list(by_sel)
            sel = rng.choice(active + list(by_sel))
            side = rng.choice(("BACK", "LAY"))
            if rng.random() < 0.8:
                ot = LimitOrder(rng.choice((1.5, 2.0, 3.5, 10.0, 40.0)), rng.choice((2.0, 5.0, 12.5)))
            else:
                ot = MarketOnCloseOrder(rng.choice((5.0, 20.0)))
            new_order = Trade(market.market_id, sel[0], sel[1], st).create_order(side, ot)
            ex = rng.choice(orders) if rng.random() < 0.5 else None
            per2 = {}
            for s2 in set(by_sel) | {sel}:
                views2 = [exposure_view(o) for o in by_sel.get(s2, []) if o is not ex]
                if s2 == sel:
                    views2.append(exposure_view(new_order))
                per2[s2] = O.selection_wpp(views2)
            got = b.get_exposures(st, (market.market_id, sel[0], sel[1]), exclusion=ex, new_order=new_order)
            tr.counters["rule_new-order"] += 1
            w2, l2 = per2[sel]
            if abs(got["worst_possible_profit_on_win"] - w2) > TOL_SEL or abs(got["worst_possible_profit_on_lose"] - l2) > TOL_SEL:
                tr.violate("C16", "new-order-not-as-added", {"with_exclusion": ex is not None}, got=got, expected=(w2, l2), tick=tr.tick)
            if mb.number_of_winners is not None:
                expm = O.market_worst_case(per2, mb.number_of_winners, mb.number_of_active_runners)
                gotm = b.market_exposure(st, mb, exclusion=ex, new_order=new_order)
                # an order on a selection that is not active any more still counts as a runner that carries orders
                if abs(gotm - expm) > TOL_SEL * max(1, len(per2)):
                    tr.violate("C16", "market-exposure-with-new-order-differs", {"with_exclusion": ex is not None, "same_object": False}, got=gotm, expected=expm, per={str(k): v for k, v in per2.items()}, tick=tr.tick)
        if mb is not None and mb.number_of_winners is not None:
            exp = O.market_worst_case(per, mb.number_of_winners, mb.number_of_active_runners)
            got = b.market_exposure(st, mb)
            tr.counters["rule_market-exposure"] += 1
            if abs(got - exp) > TOL_SEL * max(1, len(per)):
                tr.violate("C16", "market-exposure-differs", {"winners": mb.number_of_winners}, per_selection={str(k): v for k, v in per.items()}, got=got, expected=exp, active=mb.number_of_active_runners, tick=tr.tick)


# ---- C01 end-to-end -------------------------------------------------------------------------------


def exposure_bound(tr, market, phase):
    """With the acknowledgement discipline respected, no force, constant limits and no price-reduction removals the
    worst case on a selection never exceeds max_selection_exposure."""
    if phase not in ("book", "closed"):
        return
    b = market.blotter
    for st in tr.framework.strategies:
        if st.name == "__audit__" or st.max_selection_exposure is None:
            continue
        if not getattr(st, "_vf_disciplined", False):
            continue
        by_sel = {}
        for o in b._strategy_orders.get(st, []):
            by_sel.setdefault((o.selection_id, o.handicap), []).append(o)
        for sel, os_ in by_sel.items():
            if (st.name, market.market_id, sel[0], sel[1]) in tr.undisciplined:
                tr.counters["bound_skipped_undisciplined"] += 1
                continue
            views = [exposure_view(o) for o in os_]
            for v_, o in zip(views, os_):
                # the loss that can really occur is decided by the fills themselves; the reported average price is rounded to 2 dp
                # (thorough seed 0: a lay carried to an SP of 3.805 reports 3.81, which overstated the worst case by 0.035)
                fr = [f for f in getattr(o.simulated, "matched", []) if f[2]]
                if fr and v_["matched"]:
                    v_["avg"] = sum(f[1] * f[2] for f in fr) / sum(f[2] for f in fr)
            w, l = O.selection_wpp(views)
            tr.counters["rule_bound"] += 1
            worst = max(0.0, -min(w, l))
            # a lay carried to the starting price (SP order, or a limit lay with MARKET_ON_CLOSE persistence) is matched at
            # round(liability / (sp - 1), 2): its loss can exceed the liability it was accepted with by 0.005 x (sp - 1)
            sp_slack = sum(
                0.005 * max(0.0, (o.average_price_matched or 1.0) - 1.0)
                for o in os_
                if o.side == "LAY" and o.size_matched and (o.order_type.ORDER_TYPE.name != "LIMIT" or getattr(o.order_type, "persistence_type", None) == "MARKET_ON_CLOSE")
            )
            if worst > st.max_selection_exposure + 0.011 + sp_slack:
                replaced = any(getattr(o, "_vf_replacement", False) for o in os_)
                tr.violate("C01", "selection-loss-exceeds-limit", {"replaced": replaced, "phase": "settlement" if phase == "closed" else "update"}, views=views, worst=worst, limit=st.max_selection_exposure, tick=tr.tick, strategy=st.name)
            if phase == "closed":
                loss = -sum(o.profit for o in os_)
                # settlement works on the 2-dp average matched price (error <= 0.005 x matched per order, as in C08) and an SP lay is
                # matched at round(liability / (sp - 1), 2)
                slack = 0.02 + sum(0.005 * (o.size_matched or 0.0) for o in os_) + sp_slack
                tr.counters["rule_realised"] += 1
                if loss > st.max_selection_exposure + slack:
                    replaced = any(getattr(o, "_vf_replacement", False) for o in os_)
                    tr.violate("C01", "realised-loss-exceeds-limit", {"replaced": replaced}, views=views, loss=loss, limit=st.max_selection_exposure, strategy=st.name)
