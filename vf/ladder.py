"""Exchange price ladders written down from the exchanges' published increment tables.

Deliberately independent of flumine.utils (PRICES / CUTOFFS): integer arithmetic in
1/100ths, no Decimal, no shared constants.
"""
from bisect import bisect_left

# (from, to, increment) in hundredths; the upper bound of a band is the first price of the next
_BETFAIR_BANDS = (
    (101, 200, 1),
    (200, 300, 2),
    (300, 400, 5),
    (400, 600, 10),
    (600, 1000, 20),
    (1000, 2000, 50),
    (2000, 3000, 100),
    (3000, 5000, 200),
    (5000, 10000, 500),
    (10000, 100000, 1000),
)
_BETDAQ_BANDS = (
    (101, 300, 1),
    (300, 400, 5),
    (400, 1000, 10),
    (1000, 2000, 50),
    (2000, 5000, 100),
    (5000, 20000, 200),
    (20000, 100000, 500),
)


def _build(bands):
    out = []
    for lo, hi, inc in bands:
        c = lo
        while c < hi:
            out.append(c)
            c += inc
    out.append(bands[-1][1])
    return out


CLASSIC_C = _build(_BETFAIR_BANDS)  # hundredths
BETDAQ_C = _build(_BETDAQ_BANDS)
FINEST_C = list(range(101, 100001))

CLASSIC = [c / 100 for c in CLASSIC_C]
BETDAQ = [c / 100 for c in BETDAQ_C]
FINEST = [c / 100 for c in FINEST_C]

assert len(CLASSIC) == 350, len(CLASSIC)


def index(price, ladder=CLASSIC):
    i = bisect_left(ladder, price - 1e-9)
    if i < len(ladder) and abs(ladder[i] - price) < 1e-9:
        return i
    raise ValueError(price)


def is_tick(price, ladder=CLASSIC):
    try:
        index(price, ladder)
        return True
    except ValueError:
        return False


def move(price, n, ladder=CLASSIC):
    """n ticks away, clamped at both ends."""
    i = index(price, ladder) + n
    i = max(0, min(len(ladder) - 1, i))
    return ladder[i]


def line_prices(lo, hi, interval):
    """Line-range ladder: lo, lo+interval, ... <= hi (interval 0.5 or 1.0 are binary-exact)."""
    out = []
    k = 0
    while lo + k * interval <= hi + 1e-9:
        out.append(lo + k * interval)
        k += 1
    return out
