"""Case generators for simulation workloads: market files (Director) + adversarial strategy scripts.

Everything is derived from (seed, index) through one `random.Random`; a case is a plain dict that
`simrun.run_case` executes and that can be dumped into a replay file as is.
"""
import random

from . import ladder as L
from . import marketgen as G

SIZES = (0.01, 0.5, 1.0, 2.0, 2.37, 5.0, 10.0, 25.5, 100.0)
PERSIST = ("LAPSE", "PERSIST", "MARKET_ON_CLOSE")

SCRIPT_DEFAULTS = dict(
    n_orders=(1, 6),
    p_cancel=0.35,
    p_update=0.15,
    p_replace=0.25,
    p_second_op=0.3,
    types=("LIMIT",) * 6 + ("LOC", "MOC"),
    p_fok=0.15,
    p_force=0.0,
    p_mv=0.1,
    p_stale_mv=0.03,
    modes=("cross", "cross", "at", "rest", "rest", "join", "far"),
    sizes=SIZES,
    p_same_trade=0.2,
    p_any_step=0.15,  # place at a step where the market may be suspended
    p_removed_runner=0.05,
    p_orders_cb=0.0,
    liabilities=(2.0, 10.0, 15.5, 30.0),
    sides=("BACK", "LAY"),
    p_finest=0.0,  # order on the FINEST ladder (0.01 steps everywhere)
)


def mk_rng(seed, idx, salt=0):
    return random.Random((seed * 1000003 + idx) * 7919 + salt)


def pick_price(rng, snap_runner, side, mode):
    """Absolute ladder price for an order relative to the book in `snap_runner` (reader view)."""
    atb, atl = snap_runner["atb"], snap_runner["atl"]
    bb = max(atb) if atb else None  # best price offered to backers
    bl = min(atl) if atl else None
    rnd = L.CLASSIC[rng.randint(5, 300)]
    try:
        if side == "BACK":
            # a BACK order is matched against available_to_back when its price <= best
            if mode == "cross":
                return L.move(bb, -rng.randint(1, 6)) if bb else rnd
            if mode == "at":
                return bb or rnd
            if mode == "join":
                return rng.choice(sorted(atl)) if atl else (L.move(bb, 2) if bb else rnd)
            if mode == "rest":
                return L.move(bb, rng.randint(1, 5)) if bb else rnd
            return L.move(bb, rng.randint(6, 40)) if bb else rnd
        else:
            if mode == "cross":
                return L.move(bl, rng.randint(1, 6)) if bl else rnd
            if mode == "at":
                return bl or rnd
            if mode == "join":
                return rng.choice(sorted(atb)) if atb else (L.move(bl, -2) if bl else rnd)
            if mode == "rest":
                return L.move(bl, -rng.randint(1, 5)) if bl else rnd
            return L.move(bl, -rng.randint(6, 40)) if bl else rnd
    except ValueError:
        return rnd


def gen_script(rng, snaps, market_id, name, params=None, ref_prefix=""):
    """snaps: reader snapshots of the market file (one per line; the CLOSED line is never delivered
    to process_market_book).  Returns the `actions` list for one market."""
    p = dict(SCRIPT_DEFAULTS)
    p.update(params or {})
    n_steps = len([s for s in snaps if s["status"] != "CLOSED"])
    open_steps = [i for i, s in enumerate(snaps) if s["status"] == "OPEN"]
    actions = []
    if not open_steps or n_steps < 2:
        return actions
    n = rng.randint(*p["n_orders"])
    last_trade = None
    for j in range(n):
        if rng.random() < p["p_any_step"]:
            at = rng.randrange(0, n_steps)
        else:
            at = rng.choice(open_steps)
        snap = snaps[at]
        keys = [k for k, r in snap["runners"].items() if r["status"] == "ACTIVE"]
        removed = [k for k, r in snap["runners"].items() if r["status"] == "REMOVED"]
        if removed and rng.random() < p["p_removed_runner"]:
            key = rng.choice(removed)
        elif keys:
            key = rng.choice(keys)
        else:
            continue
        side = rng.choice(p["sides"])
        otype = rng.choice(p["types"])
        ref = "%s%s%d" % (ref_prefix, name, j)
        act = {"m": market_id, "at": at, "op": "place", "ref": ref, "sel": [key[0], key[1]], "side": side, "otype": otype}
        if last_trade and rng.random() < p["p_same_trade"] and last_trade[1] == key:
            act["trade"] = last_trade[0]
        else:
            act["trade"] = "T" + ref
            last_trade = (act["trade"], key)
        if otype == "LIMIT":
            act["price"] = pick_price(rng, snap["runners"][key], side, rng.choice(p["modes"]))
            act["size"] = rng.choice(p["sizes"])
            act["persistence"] = rng.choice(PERSIST)
            if rng.random() < p["p_finest"]:
                act["ladder"] = "FINEST"
                act["price"] = round(min(1000.0, max(1.01, act["price"] + rng.choice((-0.01, 0.01, 0.03)))), 2)
            if rng.random() < p["p_fok"]:
                act["tif"] = "FILL_OR_KILL"
                mf = rng.choice((None, "lt", "eq", "gt", "tiny"))
                if mf == "lt":
                    act["min_fill"] = round(max(0.01, act["size"] * rng.choice((0.25, 0.5, 0.9))), 2)
                elif mf == "eq":
                    act["min_fill"] = act["size"]
                elif mf == "gt":
                    act["min_fill"] = round(act["size"] + rng.choice((0.01, 1.0)), 2)
                elif mf == "tiny":
                    act["min_fill"] = 0.01
        elif otype == "LOC":
            act["price"] = pick_price(rng, snap["runners"][key], side, rng.choice(("cross", "rest", "far")))
            act["liability"] = rng.choice(p["liabilities"])
        else:
            act["liability"] = rng.choice(p["liabilities"])
        if rng.random() < p["p_force"]:
            act["force"] = True
        r = rng.random()
        if r < p["p_stale_mv"]:
            act["mv"] = "stale"
        elif r < p["p_mv"]:
            act["mv"] = "cur"
        if rng.random() < p["p_orders_cb"]:
            act["cb"] = "orders"
        actions.append(act)
        # follow-up operations
        t = at
        k = 0
        while k < 3:
            r = rng.random()
            if t + 1 >= n_steps:
                break
            t2 = rng.randrange(t, min(n_steps, t + 6))
            follow = rng.random() < 0.5
            if r < p["p_cancel"]:
                red = rng.choice((None, None, 0.01, 1.0, 2.0, round(act.get("size", 2.0) / 2, 2), 1000.0))
                actions.append({"m": market_id, "at": t2, "op": "cancel", "ref": ref, "reduction": red, "follow": follow})
            elif r < p["p_cancel"] + p["p_update"]:
                actions.append({"m": market_id, "at": t2, "op": "update", "ref": ref, "persistence": rng.choice(PERSIST), "follow": follow})
            elif r < p["p_cancel"] + p["p_update"] + p["p_replace"]:
                sn2 = snaps[t2]["runners"].get(key) or snap["runners"][key]
                newp = pick_price(rng, sn2, side, rng.choice(p["modes"]))
                actions.append({"m": market_id, "at": t2, "op": "replace", "ref": ref, "price": newp, "follow": follow, "mv": "cur" if rng.random() < 0.1 else None})
            else:
                break
            if rng.random() > p["p_second_op"]:
                break
            t = t2
            k += 1
    actions.sort(key=lambda a: a["at"])  # stable: keeps generation order within a step
    return actions


def gen_case(seed, idx, market_params=None, script_params=None, n_markets=(1, 1), n_strategies=(1, 1), client=None, config=None, limits=None, salt=0, event_processing=False, recorded=False):
    rng = mk_rng(seed, idx, salt)
    markets = []
    snaps_by_market = {}
    nm = rng.randint(*n_markets)
    if recorded:
        # G-mut: the recorded greyhound WIN / PLACE pair (real ladders) with hostile events spliced in
        import json as _json
        from . import env

        for mid in G.RECORDED[: max(1, min(nm, 2))]:
            lines = G.mutate_recording(G.load_recording(env.REPO_ROOT, mid), rng)
            markets.append({"id": mid, "text": "\n".join(_json.dumps(l, separators=(",", ":")) for l in lines) + "\n"})
            snaps_by_market[mid] = G.read_lines(lines)
        nm = 0
    for m in range(nm):
        mid = "1.2%08d" % (rng.randint(0, 9999) * 10 + m)
        d = G.Director(rng, mid, market_params, t0=G.T0 + (0 if event_processing else m * 3_600_000))
        mf = d.run()
        markets.append({"id": mid, "text": mf.text()})
        snaps_by_market[mid] = G.read_lines(mf.lines)
    strategies = []
    for s in range(rng.randint(*n_strategies)):
        name = "S%d" % s
        actions = []
        for mid, snaps in snaps_by_market.items():
            actions += gen_script(rng, snaps, mid, name, script_params, ref_prefix="m%s_" % mid[-3:])
        st = {"name": name, "actions": actions}
        if limits:
            st["limits"] = limits(rng) if callable(limits) else limits
        strategies.append(st)
    case = {"seed": seed, "idx": idx, "markets": markets, "strategies": strategies}
    if client:
        case["clients"] = [client(rng) if callable(client) else client]
    if config:
        case["config"] = config(rng) if callable(config) else config
    if event_processing:
        case["event_processing"] = True
    return case, snaps_by_market


# -------------------------------------------------------------------------------------------
# API-usage variants: the same requests made the way real strategies also make them
# -------------------------------------------------------------------------------------------

USAGE_DEFAULTS = dict(
    p_batch=0.0,  # requests of one step go through one explicit transaction, with t.execute() calls in between
    p_reoffer=0.0,  # an order object is offered again later (after a refusal, or although it was accepted)
    p_reoffer_same_step=0.0,  # ... in the same callback, while the first offer is still in flight
    p_force_reoffer=0.3,  # share of the re-offers made with force=True
    p_hold=0.0,  # a transaction object is taken early and used (and executed) in later updates
    p_execute_false=0.0,  # an order is filed in the blotter with execute=False and never sent
    p_trade_ctx_raise=0.0,  # requests wrapped in `with trade:` one of which raises out of the block
    p_clear_context=0.0,  # market.context rebuilt by the strategy
    p_on_close=0.0,  # requests on a sibling market made from process_closed_market
)


def usage_variants(case, snaps_by_market, rng, **opts):
    p = dict(USAGE_DEFAULTS)
    p.update(opts)
    mids = list(snaps_by_market)
    for st in case["strategies"]:
        acts = list(st["actions"])
        extra = []
        for a in acts:
            if a["op"] != "place":
                continue
            if rng.random() < p["p_execute_false"]:
                a["execute"] = False
            if rng.random() < p["p_reoffer"]:
                extra.append(dict(a, at=a["at"] + rng.randint(1, 5), reuse=True, force=rng.random() < p["p_force_reoffer"]))
            if rng.random() < p["p_reoffer_same_step"]:
                extra.append(dict(a, at=a["at"] + 1, reuse=True, force=rng.random() < p["p_force_reoffer"], cb="orders") if rng.random() < 0.5 else dict(a, reuse=True, force=False))
            if rng.random() < p["p_trade_ctx_raise"]:
                extra.append({"m": a["m"], "at": a["at"] + rng.randint(1, 4), "op": "trade_ctx_raise", "ref": a["ref"]})
        acts += extra
        for m in mids:
            n = len(snaps_by_market[m])
            if n > 4 and rng.random() < p["p_clear_context"]:
                for _ in range(rng.randint(1, 2)):
                    acts.append({"m": m, "at": rng.randrange(1, n - 1), "op": "clear_context"})
        if rng.random() < p["p_hold"]:
            m = rng.choice(mids)
            acts.append({"m": m, "at": 0, "op": "hold_open"})
            for i, a in enumerate(acts):
                if a["m"] == m and a["op"] in ("place", "cancel", "update", "replace") and a.get("cb") is None and not a.get("via") and a["at"] > 0 and rng.random() < 0.6:
                    acts[i] = {"m": m, "at": a["at"], "op": "held", "items": [a]}
        if len(mids) > 1 and rng.random() < p["p_on_close"]:
            a_, b_ = rng.sample(mids, 2)
            own = [x for x in acts if x["m"] == b_ and x["op"] == "place"]
            if own:
                src = rng.choice(own)
                acts.append({"m": a_, "cb": "closed", "target": b_, "op": "cancel", "ref": src["ref"], "at": 10**6})
                acts.append(dict(src, m=a_, cb="closed", target=b_, ref=src["ref"] + "_oc", at=10**6))
        acts.sort(key=lambda x: x["at"])
        if p["p_batch"]:
            by_step = {}
            for a in acts:
                if a.get("cb") or a.get("via") or a["op"] not in ("place", "cancel", "update", "replace"):
                    by_step.setdefault(("solo", id(a)), []).append(a)
                else:
                    by_step.setdefault((a["m"], a["at"]), []).append(a)
            out = []
            for key, items in by_step.items():
                if key[0] != "solo" and len(items) > 1 and rng.random() < p["p_batch"]:
                    out.append({"m": key[0], "at": key[1], "op": "batch", "items": items, "execute_after": sorted(rng.sample(range(len(items)), rng.randint(0, min(2, len(items)))))})
                else:
                    out += items
            acts = sorted(out, key=lambda x: x["at"])
        st["actions"] = acts
    return case
