"""Case generators for simulation workloads: market files (Director) + adversarial strategy scripts.

Everything is derived from (seed, index) through one `random.Random`; a case is a plain dict that
`simrun.run_case` executes and that can be dumped into a replay file as is.
"""
import random

from . import ladder as L
from . import marketgen as G

SIZES = (0.01, 0.5, 1.0, 2.0, 2.37, 5.0, 10.0, 25.5, 100.0)
PERSIST = ("LAPSE", "PERSIST", "MARKET_ON_CLOSE")

SCRIPT_DEFAULTS = dict(
    n_orders=(1, 6),
    p_cancel=0.35,
    p_update=0.15,
    p_replace=0.25,
    p_second_op=0.3,
    types=("LIMIT",) * 6 + ("LOC", "MOC"),
    p_fok=0.15,
    p_force=0.0,
    p_mv=0.1,
    p_stale_mv=0.03,
    modes=("cross", "cross", "at", "rest", "rest", "join", "far"),
    sizes=SIZES,
    p_same_trade=0.2,
    p_any_step=0.15,  # place at a step where the market may be suspended
    p_removed_runner=0.05,
    p_orders_cb=0.0,
    liabilities=(2.0, 10.0, 15.5, 30.0),
    sides=("BACK", "LAY"),
    p_finest=0.0,  # order on the FINEST ladder (0.01 steps everywhere)
)


def mk_rng(seed, idx, salt=0):
    return random.Random((seed * 1000003 + idx) * 7919 + salt)


def pick_price(rng, snap_runner, side, mode):
    """Absolute ladder price for an order relative to the book in `snap_runner` (reader view)."""
    atb, atl = snap_runner["atb"], snap_runner["atl"]
    bb = max(atb) if atb else None  # best price offered to backers
    bl = min(atl) if atl else None
    rnd = L.CLASSIC[rng.randint(5, 300)]
    try:
        if side == "BACK":
            # a BACK order is matched against available_to_back when its price <= best
            if mode == "cross":
                return L.move(bb, -rng.randint(1, 6)) if bb else rnd
            if mode == "at":
                return bb or rnd
            if mode == "join":
                return rng.choice(sorted(atl)) if atl else (L.move(bb, 2) if bb else rnd)
            if mode == "rest":
                return L.move(bb, rng.randint(1, 5)) if bb else rnd
            return L.move(bb, rng.randint(6, 40)) if bb else rnd
        else:
            if mode == "cross":
                return L.move(bl, rng.randint(1, 6)) if bl else rnd
            if mode == "at":
                return bl or rnd
            if mode == "join":
                return rng.choice(sorted(atb)) if atb else (L.move(bl, -2) if bl else rnd)
            if mode == "rest":
                return L.move(bl, -rng.randint(1, 5)) if bl else rnd
            return L.move(bl, -rng.randint(6, 40)) if bl else rnd
    except ValueError:
        return rnd


def gen_script(rng, snaps, market_id, name, params=None, ref_prefix=""):
    """snaps: reader snapshots of the market file (one per line; the CLOSED line is never delivered
    to process_market_book).  Returns the `actions` list for one market."""
    p = dict(SCRIPT_DEFAULTS)
    p.update(params or {})
    n_steps = len([s for s in snaps if s["status"] != "CLOSED"])
    open_steps = [i for i, s in enumerate(snaps) if s["status"] == "OPEN"]
    actions = []
    if not open_steps or n_steps < 2:
        return actions
    n = rng.randint(*p["n_orders"])
    last_trade = None
    for j in range(n):
        if rng.random() < p["p_any_step"]:
            at = rng.randrange(0, n_steps)
        else:
            at = rng.choice(open_steps)
        snap = snaps[at]
        keys = [k for k, r in snap["runners"].items() if r["status"] == "ACTIVE"]
        removed = [k for k, r in snap["runners"].items() if r["status"] == "REMOVED"]
        if removed and rng.random() < p["p_removed_runner"]:
            key = rng.choice(removed)
        elif keys:
            key = rng.choice(keys)
        else:
            continue
        side = rng.choice(p["sides"])
        otype = rng.choice(p["types"])
        ref = "%s%s%d" % (ref_prefix, name, j)
        act = {"m": market_id, "at": at, "op": "place", "ref": ref, "sel": [key[0], key[1]], "side": side, "otype": otype}
        if last_trade and rng.random() < p["p_same_trade"] and last_trade[1] == key:
            act["trade"] = last_trade[0]
        else:
            act["trade"] = "T" + ref
            last_trade = (act["trade"], key)
        if otype == "LIMIT":
            act["price"] = pick_price(rng, snap["runners"][key], side, rng.choice(p["modes"]))
            act["size"] = rng.choice(p["sizes"])
            act["persistence"] = rng.choice(PERSIST)
            if rng.random() < p["p_finest"]:
                act["ladder"] = "FINEST"
                act["price"] = round(min(1000.0, max(1.01, act["price"] + rng.choice((-0.01, 0.01, 0.03)))), 2)
            if rng.random() < p["p_fok"]:
                act["tif"] = "FILL_OR_KILL"
                mf = rng.choice((None, "lt", "eq", "gt", "tiny"))
                if mf == "lt":
                    act["min_fill"] = round(max(0.01, act["size"] * rng.choice((0.25, 0.5, 0.9))), 2)
                elif mf == "eq":
                    act["min_fill"] = act["size"]
                elif mf == "gt":
                    act["min_fill"] = round(act["size"] + rng.choice((0.01, 1.0)), 2)
                elif mf == "tiny":
                    act["min_fill"] = 0.01
        elif otype == "LOC":
            act["price"] = pick_price(rng, snap["runners"][key], side, rng.choice(("cross", "rest", "far")))
            act["liability"] = rng.choice(p["liabilities"])
        else:
            act["liability"] = rng.choice(p["liabilities"])
        if rng.random() < p["p_force"]:
            act["force"] = True
        r = rng.random()
        if r < p["p_stale_mv"]:
            act["mv"] = "stale"
        elif r < p["p_mv"]:
            act["mv"] = "cur"
        if rng.random() < p["p_orders_cb"]:
            act["cb"] = "orders"
        actions.append(act)
        # follow-up operations
        t = at
        k = 0
        while k < 3:
            r = rng.random()
            if t + 1 >= n_steps:
                break
            t2 = rng.randrange(t, min(n_steps, t + 6))
            follow = rng.random() < 0.5
            if r < p["p_cancel"]:
                red = rng.choice((None, None, 0.01, 1.0, 2.0, round(act.get("size", 2.0) / 2, 2), 1000.0))
                actions.append({"m": market_id, "at": t2, "op": "cancel", "ref": ref, "reduction": red, "follow": follow})
            elif r < p["p_cancel"] + p["p_update"]:
                actions.append({"m": market_id, "at": t2, "op": "update", "ref": ref, "persistence": rng.choice(PERSIST), "follow": follow})
            elif r < p["p_cancel"] + p["p_update"] + p["p_replace"]:
                sn2 = snaps[t2]["runners"].get(key) or snap["runners"][key]
                newp = pick_price(rng, sn2, side, rng.choice(p["modes"]))
                actions.append({"m": market_id, "at": t2, "op": "replace", "ref": ref, "price": newp, "follow": follow, "mv": "cur" if rng.random() < 0.1 else None})
            else:
                break
            if rng.random() > p["p_second_op"]:
                break
            t = t2
            k += 1
    actions.sort(key=lambda a: a["at"])  # stable: keeps generation order within a step
    return actions


def gen_case(seed, idx, market_params=None, script_params=None, n_markets=(1, 1), n_strategies=(1, 1), client=None, config=None, limits=None, salt=0, event_processing=False, recorded=False):
    rng = mk_rng(seed, idx, salt)
    markets = []
    snaps_by_market = {}
    nm = rng.randint(*n_markets)
    if recorded:
        # G-mut: the recorded greyhound WIN / PLACE pair (real ladders) with hostile events spliced in
        import json as _json
        from . import env

        for mid in G.RECORDED[: max(1, min(nm, 2))]:
            lines = G.mutate_recording(G.load_recording(env.REPO_ROOT, mid), rng)
            markets.append({"id": mid, "text": "\n".join(_json.dumps(l, separators=(",", ":")) for l in lines) + "\n"})
            snaps_by_market[mid] = G.read_lines(lines)
        nm = 0
    for m in range(nm):
        mid = "1.2%08d" % (rng.randint(0, 9999) * 10 + m)
        d = G.Director(rng, mid, market_params, t0=G.T0 + (0 if event_processing else m * 3_600_000))
        mf = d.run()
        markets.append({"id": mid, "text": mf.text()})
        snaps_by_market[mid] = G.read_lines(mf.lines)
    strategies = []
    for s in range(rng.randint(*n_strategies)):
        name = "S%d" % s
        actions = []
        for mid, snaps in snaps_by_market.items():
            actions += gen_script(rng, snaps, mid, name, script_params, ref_prefix="m%s_" % mid[-3:])
        st = {"name": name, "actions": actions}
        if limits:
            st["limits"] = limits(rng) if callable(limits) else limits
        strategies.append(st)
    case = {"seed": seed, "idx": idx, "markets": markets, "strategies": strategies}
    if client:
        case["clients"] = [client(rng) if callable(client) else client]
    if config:
        case["config"] = config(rng) if callable(config) else config
    if event_processing:
        case["event_processing"] = True
    return case, snaps_by_market
