"""C17 - price helpers and order validation agree with the exchange's ladders (finite space, enumerated completely)."""
import math
from fractions import Fraction
from decimal import Decimal
from bisect import bisect_left

from .. import env

env.setup()
from .. import ladder as L
from .. import oracles as O

PROPERTY = "C17"
LEVEL = "exploration"
EXHAUSTIVE = True
DISTINCT_RULE = (
    "the input space stated by the property is finite and enumerated completely on both tiers: every multiple of 0.001 in [0,1100] plus all tick mid-points and their "
    "floating point neighbours for get_nearest_price; every tick x n in [-400,400] for price_ticks_away; OrderValidation on real orders over price x size/liability grids "
    "around every threshold for all currencies, ladders, sides, order types, min_bet_validation on/off; distinct = distinct (function, input) pairs evaluated"
)
RULES = ["nearest", "ticks-away", "validation", "instruction"]
MINIMA = {"quick": {"rule_nearest": 1200000, "rule_ticks-away": 280000, "rule_validation": 100000}, "thorough": {"rule_nearest": 1200000, "rule_ticks-away": 280000, "rule_validation": 400000}}
ASSUMPTIONS = [
    "the exchange's increment table as written in vf/ladder.py (independent of flumine.utils.PRICES)",
    "currency minimums: betfairlightweight.metadata.currency_parameters (outside flumine)",
]
WATCHDOG = {"quick": 600, "thorough": 1800}


def plan(tier, seed):
    cases = []
    step = 10000
    for lo in range(0, 1100001, step):
        cases.append({"kind": "nearest", "lo": lo, "hi": min(lo + step, 1100001)})
    cases.append({"kind": "nearest_mid"})
    cases.append({"kind": "nearest_ladders"})
    for lo in range(0, 350, 10):
        cases.append({"kind": "ticks", "lo": lo, "hi": min(lo + 10, 350)})
    from betfairlightweight.metadata import currency_parameters

    for cur in sorted(currency_parameters):
        for mbv in (True, False):
            cases.append({"kind": "validation", "currency": cur, "mbv": mbv, "dense": tier == "thorough"})
    cases.append({"kind": "validation_ladders"})
    cases.append({"kind": "betdaq"})
    cases.append({"kind": "ticks_ladders"})
    cases.append({"kind": "currency_switch"})
    return cases


def _nearest_ok(x_frac, res, out, raw, lad_c=None, tags=None):
    """res must be a classic tick at minimal distance from x (ties allowed), clamped to [1.01, 1000]."""
    if res != res:
        return  # the call raised; already reported
    lad = L.CLASSIC_C if lad_c is None else lad_c
    tags = tags or {}
    c = res * 100
    ci = int(round(c))
    if abs(c - ci) > 1e-7 or ci not in (_TICKSET if lad_c is None else _set_of(lad_c)):
        out.v("nearest-not-a-tick", dict(tags), x=raw, result=res)
        return
    x100 = x_frac * 100
    if x100 <= 101:
        want = {101}
    elif x100 >= 100000:
        want = {100000}
    else:
        i = bisect_left(lad, x100)
        cands = [lad[j] for j in (i - 1, i) if 0 <= j < len(lad)]
        dmin = min(abs(x100 - t) for t in cands)
        want = {t for t in cands if abs(x100 - t) == dmin}
    if ci not in want:
        out.v("nearest-not-closest", dict(tags) if tags else {"band": _band(ci)}, x=raw, result=res, closest=sorted(want))


_TICKSET = set(L.CLASSIC_C)
_SETS = {}


def _set_of(lad_c):
    k = id(lad_c)
    if k not in _SETS:
        _SETS[k] = set(lad_c)
    return _SETS[k]


def _band(c):
    for lo in (200, 300, 400, 600, 1000, 2000, 3000, 5000, 10000, 100001):
        if c < lo:
            return lo
    return 0


class _Guard:
    """Wraps the helper functions: an exception raised for an in-domain input is an observation (violation)."""

    def __init__(self, mod, out):
        self.mod, self.out = mod, out

    def __getattr__(self, name):
        fn = getattr(self.mod, name)

        def call(*a):
            try:
                return fn(*a)
            except Exception as e:  # noqa
                self.out.v("helper-raised", {"function": name, "exc": type(e).__name__}, args=[repr(x) for x in a[:2]])
                return float("nan")

        return call


def run(case):
    from flumine import utils as _U

    out = O.Out(PROPERTY)
    U = _Guard(_U, out)
    kind = case["kind"]
    if kind == "nearest":
        for k in range(case["lo"], case["hi"]):
            x = k / 1000
            r = U.get_nearest_price(x)
            out.rule("nearest")
            _nearest_ok(Fraction(k, 1000), r, out, x)
            if k % 97 == 0:
                if U.get_nearest_price(r) != r:
                    out.v("nearest-not-idempotent", {}, x=x, result=r)
        out.d("nearest:%d" % case["lo"])
        out.c("distinct_inputs", case["hi"] - case["lo"])
    elif kind == "nearest_mid":
        n = 0
        for a, b in zip(L.CLASSIC_C, L.CLASSIC_C[1:]):
            mid = (a + b) / 200
            for x in (mid, math.nextafter(mid, 0), math.nextafter(mid, 2000), a / 100, math.nextafter(a / 100, 0), math.nextafter(a / 100, 2000)):
                r = U.get_nearest_price(x)
                out.rule("nearest")
                n += 1
                _nearest_ok(Fraction(Decimal(str(x))), r, out, x)
                if U.get_nearest_price(r) != r:
                    out.v("nearest-not-idempotent", {}, x=x, result=r)
        for x in (0, 0.5, 1.0, 1.005, 1.01, 1000, 1000.0001, 1005, 1100, 1e9):
            r = U.get_nearest_price(x)
            out.rule("nearest")
            _nearest_ok(Fraction(Decimal(str(x))), r, out, x)
        out.d("nearest:mid")
        out.c("distinct_inputs", n)
    elif kind == "nearest_ladders":
        # the helper's second argument: the library's own cut-off tables for the other ladders, handed over as they are defined
        # (the Betdaq one is a list, the finest one a tuple of one band), plus copies of the classic table as list and as tuple
        n = 0
        tables = [
            ("betdaq", _U.BETDAQ_CUTOFFS, L.BETDAQ_C),
            ("finest", ((1000, 100),), L.FINEST_C),
            ("classic-list", [list(x) for x in _U.CUTOFFS], L.CLASSIC_C),
            ("classic-tuple", tuple(_U.CUTOFFS), L.CLASSIC_C),
        ]
        for name, cut, lad_c in tables:
            xs = [k / 1000 for k in range(900, 12000, 1 if name != "finest" else 3)] + [k / 100 for k in range(1200, 110000, 7)]
            if name != "finest":
                for a, b in zip(lad_c, lad_c[1:]):
                    mid = (a + b) / 200
                    xs += [mid, math.nextafter(mid, 0), math.nextafter(mid, 2000), a / 100, math.nextafter(a / 100, 0), math.nextafter(a / 100, 2000)]
            xs += [0, 0.5, 1.0, 1.005, 1.01, 1000, 1000.0001, 1005, 1100]
            for j, x in enumerate(xs):
                r = U.get_nearest_price(x, cut)
                out.rule("nearest")
                n += 1
                _nearest_ok(Fraction(Decimal(str(x))), r, out, x, lad_c, {"ladder": name})
                if j % 11 == 0 and r == r and U.get_nearest_price(r, cut) != r:
                    out.v("nearest-not-idempotent", {"ladder": name}, x=x, result=r)
        out.d("nearest:ladders")
        out.c("distinct_inputs", n)
    elif kind == "ticks":
        for i in range(case["lo"], case["hi"]):
            p = L.CLASSIC[i]
            for n in range(-400, 401):
                r = U.price_ticks_away(p, n)
                out.rule("ticks-away")
                exp = L.CLASSIC[max(0, min(349, i + n))]
                if r == r and abs(r - exp) > 1e-9:
                    out.v("ticks-away-wrong", {"clamp": "low" if i + n < 0 else "high" if i + n > 349 else "none"}, price=p, n=n, result=r, expected=exp)
        out.d("ticks:%d" % case["lo"])
        out.c("distinct_inputs", (case["hi"] - case["lo"]) * 801)
    elif kind == "ticks_ladders":
        # ladders handed to price_ticks_away as its third argument, built for the call and dropped again (as a strategy quoting several
        # line markets does): line ranges, finest / Betdaq float ladders, copies of the classic one - one after the other
        n = 0
        specs = [("line", 0.5, 100.5, 1.0), ("line", 0.0, 60.0, 1.0), ("line", 0.5, 20.5, 0.5), ("line", -10.5, 10.5, 0.5), ("line", 0.5, 100.5, 0.5), ("finest",), ("betdaq",), ("classic",), ("line", 100.0, 400.0, 1.0)]
        for rnd in range(3):
            for spec in specs if rnd != 1 else specs[::-1]:
                if spec[0] == "line":
                    ref = L.line_prices(*spec[1:])
                    lad = _U.make_line_prices(*spec[1:])
                elif spec[0] == "finest":
                    ref = [c / 100 for c in range(101, 100001)][:: 37 if rnd else 1][:3000]
                    lad = list(ref)
                elif spec[0] == "betdaq":
                    ref = list(L.BETDAQ)
                    lad = [float(x) for x in ref]
                else:
                    ref = list(L.CLASSIC)
                    lad = [float(x) for x in ref]
                if [float(x) for x in lad] != [float(x) for x in ref]:
                    out.v("ladder-differs-from-exchange-table", {"ladder": spec[0]}, spec=spec, got=len(lad), expected=len(ref))
                    continue
                idxs = range(0, len(ref), max(1, len(ref) // 60))
                for i in idxs:
                    for k in (-7, -2, -1, 0, 1, 2, 5, 23):
                        if not 0 <= i + k < len(ref):
                            continue  # clamping is defined for the default ladder only
                        r = U.price_ticks_away(lad[i], k, lad)
                        out.rule("ticks-away")
                        n += 1
                        if r == r and abs(float(r) - float(ref[i + k])) > 1e-9:
                            out.v("ticks-away-wrong", {"clamp": "none", "ladder": spec[0]}, price=lad[i], n=k, result=r, expected=ref[i + k], spec=spec)
                del lad
        out.d("ticks:ladders")
        out.c("distinct_inputs", n)
    elif kind in ("validation", "validation_ladders", "betdaq", "currency_switch"):
        _validation(case, out)
    return out.result(sample={"case": case} if kind != "nearest" or case["lo"] == 0 else None)


def _sent_as_validated(out, order, price, ladder):
    """What reaches the exchange is the place instruction: it carries the price (and size) that was validated."""
    out.rule("instruction")
    ins = order.create_place_instruction()
    body = ins.get("limitOrder") or ins.get("limitOnCloseOrder") or {}
    sent = body.get("price")
    if sent is None or abs(float(sent) - float(price)) > 1e-9:
        out.v("instruction-price-differs-from-validated-price", {"ladder": ladder}, validated=price, sent=sent)
    want_size = getattr(order.order_type, "size", None)
    if want_size is not None and order.order_type.bet_target_type is None and body.get("size") != want_size:
        out.v("instruction-size-differs-from-validated-size", {"ladder": ladder}, validated=want_size, sent=body.get("size"))


def _mk(flumine_mod):
    from flumine import FlumineSimulation, clients, BaseStrategy
    from flumine.controls.tradingcontrols import OrderValidation

    client = clients.SimulatedClient()
    fw = FlumineSimulation(client=client)
    strategy = BaseStrategy(market_filter={"markets": []}, name="v")
    return fw, client, strategy, OrderValidation(fw)


_SECOND = {"n": 0, "bad": []}


def _refused(control, order):
    from flumine.exceptions import ControlError
    from flumine.order.orderpackage import OrderPackageType

    try:
        control(order, OrderPackageType.PLACE)
        return False
    except ControlError:
        # the same order object offered again unchanged (a retry) is judged the same way
        _SECOND["n"] += 1
        try:
            control(order, OrderPackageType.PLACE)
            _SECOND["bad"].append((getattr(order.order_type, "price", None), getattr(order.order_type, "size", None), getattr(order.order_type, "liability", None), order.side))
        except ControlError:
            pass
        return True


def _validation(case, out):
    import flumine
    from flumine.order.trade import Trade
    from flumine.order.ordertype import LimitOrder, LimitOnCloseOrder, MarketOnCloseOrder
    from betfairlightweight.metadata import currency_parameters
    from betfairlightweight.resources.accountresources import AccountDetails
    from betfairlightweight.resources.bettingresources import LineRangeInfo

    fw, client, strategy, control = _mk(flumine)

    def order_of(side, ot):
        o = Trade("1.1", 1, 0, strategy).create_order(side, ot)
        o.update_client(client)
        return o

    n = 0
    if case["kind"] == "validation":
        cur = case["currency"]
        par = currency_parameters[cur]
        client.account_details = AccountDetails(currencyCode=cur, discountRate=0)
        client.min_bet_validation = case["mbv"]
        mbs, mbp, mbl = par["min_bet_size"], par["min_bet_payout"], par["min_bsp_liability"]
        # sizes in thousandths around every threshold; prices: ticks around payout/size thresholds + a few off-ladder values
        sizes = set()
        for centre in (0, mbs, mbp / 1.01, mbp / 2, mbp / 10, mbl, 1, 2):
            c = int(round(centre * 1000))
            for d in range(-30, 31) if case.get("dense") else range(-12, 13):
                sizes.add(max(-5, c + d))
        sizes |= {10, 100, 1000, 12345, 5}
        prices = [1.01, 1.5, 2.0, 2.02, 3.0, 3.05, 9.8, 10.0, 10.5, 100.0, 1000.0, 1.005, 2.01, 3.02, 10.2, 1001.0, 0.5]
        for extra in (mbp / mbs, mbp / (mbs - 0.01) if mbs > 0.01 else 2, 2 * mbp / mbs):
            try:
                prices.append(L.CLASSIC[max(0, min(349, bisect_left(L.CLASSIC, extra)))])
                prices.append(L.CLASSIC[max(0, min(349, bisect_left(L.CLASSIC, extra) - 1))])
            except Exception:
                pass
        for side in ("BACK", "LAY"):
            for p in prices:
                on_ladder = L.is_tick(p, L.CLASSIC)
                for k in sorted(sizes):
                    size = k / 1000
                    refused = _refused(control, order_of(side, LimitOrder(p, size)))
                    out.rule("validation")
                    n += 1
                    two_dp = k % 10 == 0
                    ok = on_ladder and size > 0 and two_dp
                    if ok and case["mbv"]:
                        ok = not (Fraction(k, 1000) < mbs and Fraction(Decimal(str(p))) * Fraction(k, 1000) < mbp)
                    if refused == ok:
                        out.v("limit-validation-differs", {"expected_valid": ok, "currency_min": case["mbv"]}, currency=cur, side=side, price=p, size=size, refused=refused)
            for k in sorted(sizes):
                liab = k / 1000
                two_dp = k % 10 == 0
                for ot, p in (("MOC", None), ("LOC", 2.0), ("LOC", 2.01)):
                    order_type = MarketOnCloseOrder(liab) if ot == "MOC" else LimitOnCloseOrder(liab, p)
                    refused = _refused(control, order_of(side, order_type))
                    out.rule("validation")
                    n += 1
                    ok = liab > 0 and two_dp and (ot == "MOC" or L.is_tick(p, L.CLASSIC))
                    if ok and case["mbv"]:
                        ok = liab >= (mbs if side == "BACK" else mbl)
                    if refused == ok:
                        out.v("sp-validation-differs", {"expected_valid": ok, "otype": ot, "side": side}, currency=cur, liability=liab, price=p, refused=refused)
        out.d("validation:%s:%s" % (cur, case["mbv"]))
    elif case["kind"] == "currency_switch":
        # live Betfair client: the account details may be missing when the first order is validated (the call failed at start-up)
        # and arrive or change later (account polling): the minimums in force are those of the currency known at validation time
        from flumine import clients as _clients
        from flumine.controls.tradingcontrols import OrderValidation

        from betfairlightweight.exceptions import APIError

        class _Account:
            def __init__(s):
                s.details = None  # what the account endpoint answers; None: the call fails (transient API error)

            probe = None  # what the main loop does while the worker thread's poll is on its way (validates orders)

            def get_account_details(s):
                if s.probe:
                    s.probe("details")
                if s.details is None:
                    raise APIError(None)
                return s.details

            def get_account_funds(s):
                if s.probe:
                    s.probe("funds")
                raise APIError(None)

        class _Api:
            username = "cur"

            def __init__(s):
                s.account = _Account()

        # the periodic account poll: a failed poll leaves the last known details (and so the currency's minimums) in force
        for cur in ("SEK", "AUD", "HKD"):
            bc = _clients.BetfairClient(_Api(), order_stream=False)
            bc.min_bet_validation = True
            bc.betting_client.account.details = AccountDetails(currencyCode=cur, discountRate=0)
            bc.update_account_details()
            par = currency_parameters[cur]
            ctrl_ = OrderValidation(fw)

            def probe(where, bc=bc, cur=cur, par=par, ctrl_=ctrl_):
                # the poll runs on a worker thread: the main loop validates orders while the request is on its way
                for attr, want in (("min_bet_size", par["min_bet_size"]), ("min_bet_payout", par["min_bet_payout"]), ("min_bsp_liability", par["min_bsp_liability"])):
                    out.rule("validation")
                    if getattr(bc, attr) != want:
                        out.v("client-minimum-differs-from-currency", {"attr": attr, "first": cur, "during_poll": where}, currency=cur, got=getattr(bc, attr), expected=want)
                small = round(par["min_bet_size"] / 2, 2)
                o_ = Trade("1.1", 1, 0, strategy).create_order("BACK", LimitOrder(1.5, small))
                o_.update_client(bc)
                out.rule("validation")
                if not _refused(ctrl_, o_) and small * 1.5 < par["min_bet_payout"]:
                    out.v("limit-validation-differs", {"expected_valid": False, "currency_min": True, "during_poll": where}, currency=cur, price=1.5, size=small, refused=False)

            for failed in (False, True, True, False):
                bc.betting_client.account.details = None if failed else AccountDetails(currencyCode=cur, discountRate=0)
                bc.betting_client.account.probe = probe
                bc.update_account_details()
                bc.betting_client.account.probe = None
                for attr, want in (("min_bet_size", par["min_bet_size"]), ("min_bet_payout", par["min_bet_payout"]), ("min_bsp_liability", par["min_bsp_liability"])):
                    out.rule("validation")
                    n += 1
                    if getattr(bc, attr) != want:
                        out.v("client-minimum-differs-from-currency", {"attr": attr, "first": cur, "after_failed_poll": failed}, currency=cur, got=getattr(bc, attr), expected=want)

        for first in (None, "GBP", "AUD", "SEK"):
            bc = _clients.BetfairClient(_Api(), order_stream=False)
            bc.min_bet_validation = True
            ctrl = OrderValidation(fw)
            seq = [first] + [c for c in ("AUD", "GBP", "HKD", "EUR", "SEK", "USD") if c != first]
            for cur in seq:
                bc.account_details = None if cur is None else AccountDetails(currencyCode=cur, discountRate=0)
                par = currency_parameters[cur or "GBP"]
                mbs, mbp, mbl = par["min_bet_size"], par["min_bet_payout"], par["min_bsp_liability"]
                for attr, want in (("min_bet_size", mbs), ("min_bet_payout", mbp), ("min_bsp_liability", mbl)):
                    out.rule("validation")
                    if getattr(bc, attr) != want:
                        out.v("client-minimum-differs-from-currency", {"attr": attr, "first": str(first)}, currency=cur, got=getattr(bc, attr), expected=want)
                for side in ("BACK", "LAY"):
                    for size in (mbs - 0.01, mbs, round(mbp / 3.0, 2), 0.5, 2.0, 5.0, 30.0, 100.0):
                        if size <= 0:
                            continue
                        o = Trade("1.1", 1, 0, strategy).create_order(side, LimitOrder(2.0, round(size, 2)))
                        o.update_client(bc)
                        refused = _refused(ctrl, o)
                        out.rule("validation")
                        n += 1
                        k = int(round(size * 100))
                        ok = not (Fraction(k, 100) < Fraction(str(mbs)) and 2 * Fraction(k, 100) < Fraction(str(mbp)))
                        if refused == ok:
                            out.v("limit-validation-differs", {"expected_valid": ok, "currency_min": True, "after_switch": cur != first}, currency=cur, first=first, side=side, size=size, refused=refused)
                    for liab in (mbs - 0.01, mbs, mbl - 0.01, mbl, 2.0, 10.0, 30.0):
                        if liab <= 0:
                            continue
                        o = Trade("1.1", 1, 0, strategy).create_order(side, MarketOnCloseOrder(round(liab, 2)))
                        o.update_client(bc)
                        refused = _refused(ctrl, o)
                        out.rule("validation")
                        n += 1
                        ok = round(liab, 2) >= (mbs if side == "BACK" else mbl)
                        if refused == ok:
                            out.v("sp-validation-differs", {"expected_valid": ok, "otype": "MOC", "side": side, "after_switch": cur != first}, currency=cur, first=first, liability=liab, refused=refused)
        out.d("validation:currency_switch")
    elif case["kind"] == "validation_ladders":
        client.min_bet_validation = False
        # every classic tick and every hundredth in between is judged on the classic and finest ladders
        for c in range(95, 100100, 1):
            if c > 2100 and c % 7 and c not in _TICKSET:
                continue
            p = c / 100
            for ladder, lad in (("CLASSIC", L.CLASSIC_C), ("FINEST", None)):
                o_ = order_of("BACK", LimitOrder(p, 5.0, price_ladder_definition=ladder))
                refused = _refused(control, o_)
                out.rule("validation")
                n += 1
                ok = (c in _TICKSET) if ladder == "CLASSIC" else (101 <= c <= 100000)
                if refused == ok:
                    out.v("ladder-validation-differs", {"ladder": ladder, "expected_valid": ok}, price=p, refused=refused)
                if not refused:
                    _sent_as_validated(out, o_, p, ladder)
        # several markets' ranges go through the one control instance, including ranges that share their ends but not their interval, in both orders
        ranges = ((0.5, 100.5, 1.0), (0.0, 60.0, 1.0), (0.5, 20.5, 0.5), (-10.5, 10.5, 0.5), (100.0, 400.0, 1.0), (0.5, 100.5, 0.5), (0.0, 60.0, 0.5), (0.5, 20.5, 1.0), (-10.5, 10.5, 1.0))
        for lo, hi, iv in ranges + ranges[::-1]:
            info = LineRangeInfo(marketUnit="x", interval=iv, minUnitValue=lo, maxUnitValue=hi)
            valid = set(L.line_prices(lo, hi, iv))
            k = lo - 2
            while k <= hi + 2:
                for p in (k, k + iv / 2, k + 0.25):
                    o_ = order_of("LAY", LimitOrder(p, 5.0, price_ladder_definition="LINE_RANGE", line_range_info=info))
                    refused = _refused(control, o_)
                    out.rule("validation")
                    n += 1
                    ok = p in valid
                    if refused == ok:
                        out.v("ladder-validation-differs", {"ladder": "LINE_RANGE", "expected_valid": ok}, price=p, range=(lo, hi, iv), refused=refused)
                    if not refused:
                        _sent_as_validated(out, o_, p, "LINE_RANGE")
                k += iv
        # small stakes on line markets: the payout rule is the same as everywhere (stake x price reaches the minimum payout)
        client.min_bet_validation = True
        client.account_details = AccountDetails(currencyCode="GBP", discountRate=0)
        gbp = currency_parameters["GBP"]
        info = LineRangeInfo(marketUnit="x", interval=1.0, minUnitValue=0.5, maxUnitValue=100.5)
        for line in (0.5, 4.5, 9.5, 19.5, 25.5, 49.5, 100.5):
            for size in (0.1, 0.2, 0.4, 0.5, 0.99, 1.0, 2.0):
                refused = _refused(control, order_of("BACK", LimitOrder(line, size, price_ladder_definition="LINE_RANGE", line_range_info=info)))
                out.rule("validation")
                n += 1
                ok = not (Fraction(str(size)) < Fraction(str(gbp["min_bet_size"])) and Fraction(str(line)) * Fraction(str(size)) < Fraction(str(gbp["min_bet_payout"])))
                if refused == ok:
                    out.v("limit-validation-differs", {"expected_valid": ok, "currency_min": True, "ladder": "LINE_RANGE"}, price=line, size=size, refused=refused)
        client.min_bet_validation = False
        out.d("validation:ladders")
    else:
        from flumine.order.ordertype import BetdaqLimitOrder
        from flumine.order.order import BetdaqOrder

        client.min_bet_validation = False
        bset = set(L.BETDAQ_C)
        for c in range(95, 100100, 1):
            if c > 6000 and c % 5 and c not in bset:
                continue
            p = c / 100
            ot = BetdaqLimitOrder(p, 5.0, 1, 0, 0)
            o = Trade("1.1", 1, 0, strategy).create_betdaq_order("BACK", ot)
            o.update_client(client)
            refused = _refused(control, o)
            out.rule("validation")
            n += 1
            ok = c in bset
            if refused == ok:
                out.v("ladder-validation-differs", {"ladder": "BETDAQ", "expected_valid": ok}, price=p, refused=refused)
        for size in (0, -1, 0.001, 2.005, 5.0):
            o = Trade("1.1", 1, 0, strategy).create_betdaq_order("BACK", BetdaqLimitOrder(2.0, size, 1, 0, 0))
            o.update_client(client)
            refused = _refused(control, o)
            out.rule("validation")
            ok = size > 0 and round(size, 2) == size
            if refused == ok:
                out.v("betdaq-size-validation-differs", {}, size=size, refused=refused)
        out.d("validation:betdaq")
    # an order whose validation cannot even be evaluated (LINE_RANGE ladder named without its range) never counts as valid
    from flumine.exceptions import ControlError
    from flumine.order.orderpackage import OrderPackageType

    for p_ in (2.5, 3.14, 0.0, 1000.5):
        o = order_of("BACK", LimitOrder(p_, 5.0, price_ladder_definition="LINE_RANGE"))
        out.rule("validation")
        try:
            control(o, OrderPackageType.PLACE)
            outcome = "passed"
        except ControlError:
            outcome = "refused"
        except Exception:  # noqa: BLE001
            outcome = "raised"
        if outcome == "passed":
            out.v("unverifiable-order-passed-validation", {"ladder": "LINE_RANGE"}, price=p_)
    out.c("rule_second-offer", _SECOND["n"])
    for bad in _SECOND["bad"][:50]:
        out.v("refused-order-passes-when-offered-again", {}, order=bad)
    _SECOND["n"], _SECOND["bad"] = 0, []
    out.c("distinct_inputs", n)
