"""C07 - simulated latency and bet delay: no look-ahead and no free speed."""
from .. import oracles as O
from .. import simrun
from . import _sim

PROPERTY = "C07"
LEVEL = "exploration"
DISTINCT_RULE = (
    "cases = seeded markets with update spacings from 1 ms to minutes x latency settings x bet delays (changing in-play); distinct = "
    "(request kind, total delay, number of updates until effect capped at 4 / never, tie?) cells of packages whose effect was predicted from the file's publish times"
)
RULES = ["package", "effect", "pending-no-fill", "timestamps", "clock"]
MINIMA = {"quick": {"rule_package": 6000, "rule_effect": 4000, "rule_clock": 20000}, "thorough": {"rule_package": 250000}}
ASSUMPTIONS = ["publish times are read from the raw file lines by vf.marketgen.read_lines", "no listener filter is configured, so every line is delivered"]
LATS = ((0.0, 0.0, 0.0, 0.0), (0.001, 0.001, 0.001, 0.001), (0.12, 0.17, 0.15, 0.28), (1.0, 1.0, 1.0, 1.0), (5.0, 0.17, 0.15, 5.0), (0.12, 0.0, 0.0, 0.28))
SPACINGS = (1, 1, 40, 119, 120, 121, 170, 280, 999, 1000, 1120, 2280, 5000, 5120, 60000)


def _config(rng):
    a = rng.choice(LATS)
    # (async placement changes how the order is acknowledged, not when the exchange acts on it)
    return {"place_latency": a[0], "cancel_latency": a[1], "update_latency": a[2], "replace_latency": a[3], "async_place_orders": rng.random() < 0.35}


MARKET = {"spacing_ms": SPACINGS, "p_inplay": 0.7, "inplay_bet_delay": (0, 1, 5, 12), "pre_bet_delay": (0, 0, 1, 3), "n_pre": (5, 14), "n_inplay": (2, 10), "p_suspend_reopen": 0.4, "depth": (1, 4)}
SCRIPT = {"n_orders": (2, 9), "p_cancel": 0.4, "p_update": 0.2, "p_replace": 0.3, "p_second_op": 0.5, "p_any_step": 0.05}


def plan(tier, seed):
    n = 6000 if tier == "quick" else 80000
    out = []
    for i in range(n):
        ev = i % 4 == 3
        out.append({"seed": seed, "idx": i, "profile": "event" if ev else "plain", "overrides": {"market_params": MARKET, "script_params": SCRIPT, "config": "c07"}})
    return out


def run(desc):
    desc = dict(desc)
    ov = dict(desc["overrides"])
    ov["config"] = _config
    desc["overrides"] = ov
    case, snaps = _sim.build(desc)
    if desc["idx"] % 3 == 1:
        # a transaction object taken at the first update and used / executed in later ones (the bet delay in force is the one at
        # the time the requests are sent), several requests per explicit transaction
        from .. import simgen as _sg

        _sg.usage_variants(case, snaps, _sg.mk_rng(desc["seed"], desc["idx"], 707), p_hold=0.7, p_batch=0.4)
    if case.get("event_processing") and len(snaps) > 1:
        # some requests on one market are made while an update of a sibling market of the event is being processed
        from .. import simgen

        rng = simgen.mk_rng(desc["seed"], desc["idx"], 71)
        for st in case["strategies"]:
            for a in st["actions"]:
                if a["op"] not in ("place", "cancel", "update", "replace") or rng.random() > 0.35:
                    continue
                ma = snaps[a["m"]]
                if a["at"] >= len(ma):
                    continue
                lo = ma[a["at"]]["pt"]
                hi = ma[a["at"] + 1]["pt"] if a["at"] + 1 < len(ma) else None
                others = [m_ for m_ in snaps if m_ != a["m"]]
                rng.shuffle(others)
                for mb in others:
                    js = [j for j, s_ in enumerate(snaps[mb]) if s_["pt"] > lo and (hi is None or s_["pt"] < hi) and s_["status"] != "CLOSED"]
                    if js:
                        a["via"] = [mb, js[0]]
                        break
    tr = simrun.run_case(case)
    out = O.Out(PROPERTY)
    O.abort_violation(tr, out)
    O.c07_latency(tr, out, snaps, case)
    return out.result(sample=_sim.sample_of(case, tr) if desc["idx"] < 2 else None)
