"""C01 - exposure limits bound every order that reaches the exchange."""
from .. import oracles as O
from .. import simrun, simgen, observers
from . import _sim

PROPERTY = "C01"
LEVEL = "exploration"
DISTINCT_RULE = (
    "every non-forced PLACE/REPLACE decision through the default controls is re-judged by brute force over the position snapshot taken at the request; "
    "distinct = (kind, order type, side, which limits are set, accepted?, #orders in position<=5, ladder) decision cells; plus the end-to-end bound per update/settlement"
)
RULES = ["decision", "market-decision", "refused", "bound", "realised", "live-decision"]
MINIMA = {"quick": {"rule_decision": 4000, "rule_market-decision": 500, "rule_refused": 500, "rule_bound": 3000, "rule_live-decision": 800}, "thorough": {"rule_decision": 150000}}
ASSUMPTIONS = [
    "affected-side rule: a BACK is judged on the lose side, a LAY on the win side (the other side is within the limit by induction over accepted orders)",
    "end-to-end bound only for strategies run with max_live_trade_count=1, no force, no removals with price reduction in the file",
    "tolerance 0.011 (two 2-dp roundings)",
]
WEIGHTS = [("plain", 3), ("deep", 3), ("hostile", 2), ("multi", 1), ("lines", 1), ("recorded", 1), ("availprices", 1)]


def _limits(rng):
    def one(choices):
        return rng.choice(choices)

    lim = {"order": one((None, 3.0, 10.0, 40.0)), "selection": one((None, 5.0, 20.0, 100.0)), "market": one((None, None, 10.0, 60.0))}
    if rng.random() < 0.08:
        # a limit of zero is a limit (nothing may be risked), alone or next to others that are zero or not set
        which = rng.choice((("order",), ("selection",), ("market",), ("order", "selection", "market")))
        lim = {k: (0 if k in which else (lim[k] if rng.random() < 0.3 else None)) for k in lim}
    return lim


def plan(tier, seed):
    cases = _sim.plan_profiles(tier, seed, WEIGHTS, 5000, 60000)
    # directed case for the listed finding C01-replace-not-revalued
    # live trading: the decision is taken on what the order stream and the responses have told the framework; at a quiescent point
    # (every response delivered, current bet table processed) that must be the exchange's own table
    n = 1500 if tier == "quick" else 40000
    cases += [{"mode": "live_gate", "seed": seed, "idx": i, "cfg": {"n": 1 + i % 3, "async": i % 4 == 3, "hc": i % 3 == 1, "ext": i % 2 == 1, "sp": (i // 2) % 4 if i % 6 == 5 else 0, "lose_reply": i % 4 == 2}, "len": 9 + i % 6} for i in range(n)]
    # scripted beginnings in which the framework must learn of a fill through the stream alone (after a replace, around a cancel
    # that the exchange answers BET_TAKEN_OR_LAPSED, with the update overtaking the response), followed by a short random walk
    pre = [
        [["place", 0], ["resp", 0], ["snap"], ["replace", 0], ["resp", 0], ["fill", 0, 1.0], ["snap"], ["cancel", 0], ["resp", 0]],
        [["place", 0], ["resp", 0], ["fill", 0, 1.0], ["cancel", 0], ["resp", 0], ["snap"]],
        [["place", 0], ["resp", 0], ["cancel", 0], ["fill", 0, 1.0], ["snap"], ["resp", 0]],
        [["place", 0], ["exch", 0], ["fill", 0, 1.0], ["snap"], ["resp", 0], ["snap"]],
        [["place", 0], ["resp", 0], ["replace", 0], ["exch", 0], ["fill", 0, 0.4], ["snap"], ["resp", 0], ["fill", 0, 1.0], ["snap"]],
        [["place", 0], ["resp", 0], ["update", 0], ["fill", 0, 1.0], ["snap"], ["resp", 0]],
    ]
    for i in range(len(pre) * (20 if tier == "quick" else 300)):
        cases.append({"mode": "live_gate", "seed": seed, "idx": n + i, "cfg": {"n": 1 + (i // len(pre)) % 2, "async": False, "hc": i % 5 == 4}, "prefix": pre[i % len(pre)], "len": (i // len(pre)) % 4})
    # a backtest ran earlier in the same process; the live instance is entered the way Flumine.run() enters it
    for i in range(len(pre) * (6 if tier == "quick" else 100)):
        cases.append({"mode": "live_gate", "seed": seed, "idx": n + 20000 + i, "cfg": {"n": 1, "async": False, "after_backtest": True}, "prefix": pre[i % len(pre)], "len": i % 3})
    # a cancel refused by the exchange with a code after which the bet is still live: the stake stays at risk and keeps counting
    for i, code in enumerate(("MARKET_NOT_OPEN_FOR_BETTING", "MARKET_SUSPENDED", "BET_ACTION_ERROR") * (30 if tier == "quick" else 200)):
        cases.append({"mode": "live_gate", "seed": seed, "idx": n + 10000 + i, "cfg": {"n": 1 + i % 2, "async": False, "cancel_fault": code}, "prefix": [["place", 0], ["resp", 0], ["snap"], ["cancel", 0], ["resp", 0], ["snap"]], "len": i % 3})
    return [{"seed": seed, "idx": 0, "profile": "plain", "directed": "replace"}] + cases[1:]


def build(desc):
    rng = simgen.mk_rng(desc["seed"], desc["idx"], 1)
    if desc["idx"] % 11 == 10 and not desc.get("directed"):
        # line market: every bet is struck at even money, the per-order exposure is the stake on both sides
        from . import c16

        case, snaps = c16.build_line(desc)
        for s in case["strategies"]:
            s["limits"] = _limits(rng)
            s["max_live_trade_count"] = 1e6
            s["multi_order_trades"] = True
            s["disciplined"] = False
        return case, snaps
    disciplined = desc["idx"] % 2 == 0
    if desc.get("profile") == "availprices":
        disciplined = (desc["idx"] // 12) % 2 == 0  # (this profile only falls on odd indices)
    d = dict(desc)
    mp = dict(_sim.PROFILES[desc["profile"]]["market_params"])
    mp.update(p_removal=0.0 if disciplined else 0.15, market_types=("WIN", "PLACE"), winners=(1, 2), n_runners=(2, 5))
    d["overrides"] = {
        "market_params": mp,
        "script_params": {
            "n_orders": (4, 14),
            "types": ("LIMIT",) * 6 + ("LOC", "MOC"), "p_finest": 0.15,
            "p_cancel": 0.2,
            "p_replace": 0.3,
            "p_update": 0.05,
            "p_force": 0.0 if disciplined else 0.08,
            "sizes": (0.5, 2.0, 2.37, 5.0, 10.0, 25.5, 2.01, 4.35, 8.2, 1.15, 0.29),
            "liabilities": (2.0, 10.0, 30.0),
            "modes": ("cross", "cross", "at", "rest", "join", "far"),
            "p_any_step": 0.0,
        },
        "limits": _limits,
    }
    case, snaps = _sim.build(d)
    for s in case["strategies"]:
        s["max_live_trade_count"] = 1 if disciplined else rng.choice((1, 2, 1e6))
        s["multi_order_trades"] = False if disciplined else rng.random() < 0.5
        s["disciplined"] = disciplined
    if desc["idx"] % 6 == 4 and not desc.get("directed"):
        # one strategy instance trades runners with different budgets: its validate_order hook loads the budget of the order's runner
        # into max_selection_exposure before delegating (the limit in force is the one the hook has just set)
        keys = sorted({tuple(k_) for sn in snaps.values() for s_ in sn[:1] for k_ in s_["runners"]})
        for s in case["strategies"]:
            s["budgets"] = {"%s,%s" % k_: rng.choice((3.0, 8.0, 20.0, 60.0)) for k_ in keys}
            s.setdefault("limits", {})
            s["limits"] = dict(s["limits"], selection=rng.choice((8.0, 20.0)))
            s["disciplined"] = False  # (the end-to-end bound is stated for one limit per strategy)
    if desc.get("directed") == "replace":
        # LAY 10 @ 1.5 (exposure 5) accepted under limits 20/20, then replaced to 5.0 (exposure 40): matched at once, runner wins
        from .. import marketgen as G

        m = "1.200000777"
        mf = G.MarketFile(m, [(101, 0, 40.0), (102, 0, 60.0)], bsp=False)
        t = G.T0
        for i in range(6):
            t += 1000
            mf.emit(t, rc={(101, 0): {"atb": {1.4: 50.0}, "atl": {5.0: 100.0}}, (102, 0): {"atb": {1.2: 50.0}, "atl": {1.3: 50.0}}})
        t += 1000
        mf.emit(t, md_changes={"status": "SUSPENDED"})
        t += 1000
        mf.emit(t, md_changes={"status": "CLOSED"}, runner_md={(101, 0): {"status": "WINNER"}, (102, 0): {"status": "LOSER"}})
        case = {
            "seed": desc["seed"],
            "idx": desc["idx"],
            "markets": [{"id": m, "text": mf.text()}],
            "config": {"place_latency": 0.0, "replace_latency": 0.0},
            "strategies": [
                {
                    "name": "S0",
                    "limits": {"order": 20.0, "selection": 20.0, "market": None},
                    "max_live_trade_count": 1,
                    "multi_order_trades": False,
                    "disciplined": True,
                    "actions": [
                        {"m": m, "at": 0, "op": "place", "ref": "a", "sel": [101, 0], "side": "LAY", "price": 1.5, "size": 10.0, "persistence": "PERSIST"},
                        {"m": m, "at": 2, "op": "replace", "ref": "a", "price": 5.0},
                    ],
                }
            ],
        }
        snaps = {m: G.read_lines(mf.lines)}
    return case, snaps


def _pre(fw, tr):
    pass


def run_live_gate(desc):
    from . import c11
    from .. import livecases

    rng = simgen.mk_rng(desc["seed"], desc["idx"], 101)
    out = O.Out(PROPERTY)

    def observe(r):
        if not r.final or (r.restarted and r.replaced):  # restart + replaced bet: the listed C11 finding
            return
        st, by_sel = c11.exchange_truth(r)
        m = r.w.market(r.mid)
        if m is None or not by_sel:
            return
        sel = rng.choice(sorted(by_sel))
        views = [c11.bet_view(b) for b in by_sel[sel]]
        w_, l_ = O.selection_wpp(views)
        side = rng.choice(("BACK", "LAY"))
        price, size = rng.choice(((2.0, 4.0), (3.5, 2.0), (1.5, 10.0)))
        order_exposure = size if side == "BACK" else (price - 1) * size
        potential = (-l_ if side == "BACK" else -w_) + order_exposure
        st.max_selection_exposure = round(potential + rng.choice((-0.5, 0.5, -3.0, 3.0)), 2)
        probe = livecases.make_order(st, r.mid, sel=sel[0], handicap=sel[1], side=side, price=price, size=size)
        before = len(r.w.executor.queue)
        m.place_order(probe)
        accepted = len(r.w.executor.queue) > before
        out.rule("live-decision")
        out.d("c01live:%s:%s:%s:%s" % (side, accepted, r.restarted, bool(r.replaced)))
        if accepted and potential > st.max_selection_exposure + 0.011:
            out.v("accepted-beyond-limit", {"kind": "PLACE", "limit": "selection", "otype": "LIMIT", "side": side, "live": True, "restarted": r.restarted}, potential=potential, limit=st.max_selection_exposure, exchange_bets=by_sel[sel], log=r.log)
        r.w.executor.run_all()

    c11.walk(desc, observe)
    out.c("live_gates")
    return out.result()


def run(desc):
    if desc.get("mode") == "live_gate":
        return run_live_gate(desc)
    case, snaps = build(desc)

    def pre(fw, tr):
        for st in fw.strategies:
            spec = next((s for s in case["strategies"] if s["name"] == st.name), None)
            if spec is not None and spec.get("disciplined"):
                st._vf_disciplined = True

    tr = simrun.run_case(case, observers=[observers.exposure_bound], want_positions=True, pre_run=pre)
    out = O.Out(PROPERTY)
    O.abort_violation(tr, out)
    out.violations += [v for v in tr.online if v["property"] == PROPERTY]
    O.c01_decisions(tr, out, case)
    for k, v in tr.counters.items():
        if k.startswith("rule_"):
            out.c(k, v)
    return out.result(sample=_sim.sample_of(case, tr) if desc["idx"] < 2 else None)
