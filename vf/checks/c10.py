"""C10 - trade and runner accounting follows the real state of the orders."""
from .. import oracles as O
from .. import simrun, simgen, observers
from . import _sim

PROPERTY = "C10"
LEVEL = "exploration"
DISTINCT_RULE = (
    "cases = seeded histories of single/multi-order trades, replacements, fills, cancels, lapses, voids, failed placements and failure replies "
    "under sweeps of max_trade_count / max_live_trade_count / multi_order_trades / reset_seconds / place_reset_seconds; distinct = "
    "(#trades<=3, #live<=3, multi_order_trades, trade already known) cells at accepted placements plus status paths of trades"
)
RULES = ["recount", "trade-status", "limit", "refusal", "exchange-truth"]
MINIMA = {"quick": {"rule_recount": 20000, "rule_limit": 3000, "rule_trade-status": 20000, "rule_exchange-truth": 1000}, "thorough": {"rule_recount": 800000}}
ASSUMPTIONS = [
    "a trade counts as placed once one of its orders was accepted by place_order(execute=True)",
    "a further order placed in a trade that had completed brings the trade back to life when the placement is executed; while that request is on its way the trade may still read COMPLETE (only this window is excused), the counts are recounted throughout",
    "trades flagged pending_orders are outside, as the property says",
]
WEIGHTS = [("hostile", 4), ("fastlat", 3), ("plain", 2), ("multi", 1), ("lines", 1), ("event", 1), ("recorded", 1)]


def plan(tier, seed):
    # (of the API-usage variants, C10's independent accounting model covers explicit transactions with several requests; orders filed
    # without being sent, held transactions and `with trade:` blocks that raise change what "placed" means and are left to C02 / C03 / C12)
    cases = _sim.plan_profiles(tier, seed, WEIGHTS, 7000, 80000, usage={"p_batch": 0.7})
    n = 1500 if tier == "quick" else 40000
    cases += [{"mode": "live_walk", "seed": seed, "idx": i, "cfg": {"n": 1 + i % 3, "async": i % 4 == 3, "hc": i % 7 == 3, "ext": i % 2 == 1, "sp": (i // 2) % 4 if i % 6 == 5 else 0, "lose_reply": i % 4 == 2}, "len": 9 + i % 6} for i in range(n)]
    # directed case for the listed finding C10-reused-trade-order-completes-before-executed
    cases.insert(0, {"mode": "directed_reuse", "seed": seed, "idx": 0})
    # paper trading: simulated execution on the pool of a live Flumine, completion reported by the poller
    return cases + [{"mode": "paper_walk", "seed": seed, "idx": i, "len": 40 + i % 50} for i in range(300 if tier == "quick" else 6000)]


def build(desc):
    rng = simgen.mk_rng(desc["seed"], desc["idx"], 10)
    d = dict(desc)
    d["overrides"] = {"script_params": {"n_orders": (3, 10), "p_same_trade": 0.35, "p_cancel": 0.4, "p_replace": 0.3, "p_update": 0.1, "p_second_op": 0.4, "p_any_step": 0.15}}
    if desc["idx"] % 9 == 7:
        # a market followed for more than a day (hours between updates): cool-downs are measured in elapsed seconds, days included
        mp_ = dict(_sim.PROFILES[desc["profile"]]["market_params"])
        mp_.update(spacing_ms=(1000, 60_000, 18_000_000, 40_000_000, 86_400_000 - 60_000, 86_400_000 + 90_000), n_pre=(6, 12), p_inplay=0.0, market_time_offsets=(400_000_000,))
        d["overrides"]["market_params"] = mp_
    case, snaps = _sim.build(d)
    for s in case["strategies"]:
        s["max_trade_count"] = rng.choice((1, 2, 3, 1e6))
        s["max_live_trade_count"] = rng.choice((1, 1, 2, 3, 1e6))
        if desc["idx"] % 10 == 3:
            # a limit of zero: the strategy may not open a trade at all (watch-only)
            s["max_trade_count" if desc["idx"] % 20 == 3 else "max_live_trade_count"] = 0
        s["multi_order_trades"] = rng.random() < 0.5
        rs = rng.choice((0.0, 0.0, 0.04, 1.0, 5.0, 60.0)) if desc["idx"] % 9 != 7 else rng.choice((120.0, 300.0, 3600.0))
        ps = rng.choice((0.0, 0.0, 0.04, 1.0, 5.0)) if desc["idx"] % 9 != 7 else rng.choice((0.0, 120.0, 300.0))
        for a in s["actions"]:
            if a["op"] == "place":
                a["reset_seconds"] = rs
                a["place_reset_seconds"] = ps
                if rng.random() < 0.1:
                    a["in_trade_ctx"] = True
    return case, snaps


def directed_reuse():
    """A trade completes (its order is fully matched); a further order is placed in that trade and, while the placement is still on
    its way (updates 50 ms apart), the runner is withdrawn: the order is voided - complete - before it was ever executed."""
    from .. import marketgen as G

    mid = "1.210000001"
    mf = G.MarketFile(mid, [(1, 0, 40.0), (2, 0, 35.0), (3, 0, 25.0)], bsp=False)
    book = {(k, 0): {"atb": {3.0: 200.0}, "atl": {3.2: 200.0}} for k in (1, 2, 3)}
    t = G.T0
    mf.emit(t, rc=book)
    for dt in (300, 600, 900, 950):
        mf.emit(t + dt, rc={(1, 0): {"atb": {3.0: 200.0 + dt}}})
    mf.emit(t + 1000, runner_md={(3, 0): {"status": "REMOVED", "adjustmentFactor": 25.0, "removalDate": G.iso(t + 1000)}})
    for dt in (1050, 1400, 1800):
        mf.emit(t + dt, rc={(1, 0): {"atb": {3.0: 300.0 + dt}}})
    mf.emit(t + 5000, md_changes={"status": "CLOSED"}, runner_md={(1, 0): {"status": "WINNER"}, (2, 0): {"status": "LOSER"}})
    acts = [
        {"m": mid, "at": 0, "op": "place", "ref": "a", "trade": "T", "sel": [3, 0], "side": "BACK", "otype": "LIMIT", "price": 2.5, "size": 4.0, "persistence": "LAPSE"},
        {"m": mid, "at": 4, "op": "place", "ref": "b", "trade": "T", "sel": [3, 0], "side": "LAY", "otype": "LIMIT", "price": 2.0, "size": 4.0, "persistence": "LAPSE"},
    ]
    return {"seed": 0, "idx": 0, "markets": [{"id": mid, "text": mf.text()}], "strategies": [{"name": "S0", "actions": acts, "max_live_trade_count": 1, "multi_order_trades": True}]}, {mid: G.read_lines(mf.lines)}


def run(desc):
    if desc.get("mode") == "paper_walk":
        from .. import paperwalk

        rng = simgen.mk_rng(desc["seed"], desc["idx"], 110)
        kw = {"max_trade_count": rng.choice((2, 3, 1e6)), "max_live_trade_count": rng.choice((1, 2, 3, 1e6)), "multi_order_trades": rng.random() < 0.6}

        def observe(r, m, phase):
            # judged at quiescent points only (every call answered, one poll processed)
            r.tr.framework = r.w.fw
            observers.trade_accounting(r.tr, m, phase)

        r = paperwalk.walk(desc, observe, n_strategies=rng.choice((1, 2)), strategy_kw=kw)
        out = O.Out(PROPERTY)
        out.violations += [dict(v, tags=dict(v["tags"], exec="Paper")) for v in r.tr.online if v["property"] == PROPERTY]
        for k, v in r.tr.counters.items():
            if k.startswith("rule_"):
                out.c(k, v)
        out.c("paper_walks")
        return out.result()
    if desc.get("mode") == "live_walk":
        from . import c11

        def observe(r):
            if r.w.executor.queue:
                return  # a response is outstanding: the trade may legitimately be PENDING / mid-update
            m = r.w.market(r.mid)
            if m is not None:
                r.tr.framework = r.w.fw
                observers.trade_accounting(r.tr, m, "book")
            if r.final and not (r.restarted and r.replaced):
                # every response delivered and the exchange's current table processed: the runner is charged with exactly the
                # trades that still have a live bet AT THE EXCHANGE (the real state of the orders), so a runner whose bets have
                # all completed there is free again.  (restart + replaced bet is the listed C11 finding.)
                st, by_sel = c11.exchange_truth(r)
                for sel, bets in by_sel.items():
                    r.tr.counters["rule_exchange-truth"] += 1
                    live_refs = {b["customerOrderRef"] for b in bets if b["status"] != "EXECUTION_COMPLETE"}
                    ctx = st.get_runner_context(r.mid, sel[0], sel[1])
                    m_ = r.w.market(r.mid)
                    if m_ is not None and any(id(o_.trade) in r.stranded_by_own_exception for o_ in m_.blotter if (o_.selection_id, o_.handicap) == sel):
                        continue  # (a `with trade:` block of the strategy raised: the trade is left PENDING by design)
                    if ctx.live_trade_count != len(live_refs):
                        r.tr.violate(PROPERTY, "live-trade-count-differs-from-exchange", {"direction": "leak" if ctx.live_trade_count > len(live_refs) else "under"}, ctx=ctx.live_trade_count, exchange_live=len(live_refs), log=r.log)

        r = c11.walk(desc, observe)
        out = O.Out(PROPERTY)
        # (a restart re-creates trades from exchange data: one adopted trade per bet; replaced bets are the listed C11 finding)
        out.violations += [dict(v, tags=dict(v["tags"], exec="Betfair", restarted=r.restarted, replaced=bool(r.replaced))) for v in r.tr.online if v["property"] == PROPERTY]
        for k, v in r.tr.counters.items():
            if k.startswith("rule_"):
                out.c(k, v)
        out.c("live_walks")
        return out.result()
    case, snaps = directed_reuse() if desc.get("mode") == "directed_reuse" else build(desc)
    tr = simrun.run_case(case, observers=[observers.trade_accounting])
    out = O.Out(PROPERTY)
    O.abort_violation(tr, out)
    out.violations += [v for v in tr.online if v["property"] == PROPERTY]
    O.c10_limits(tr, out, case)
    for k, v in tr.counters.items():
        if k.startswith("rule_"):
            out.c(k, v)
    for t, trade in tr.trades.items():
        out.d("tpath:" + ">".join(e["new"][:4] for e in tr.tstatus if e["t"] == t)[:80])
    return out.result(sample=_sim.sample_of(case, tr) if desc["idx"] < 2 else None)
