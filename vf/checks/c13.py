"""C13 - strategies are isolated from each other and from callback errors."""
import copy
import types

from .. import oracles as O
from .. import simrun, simgen, observers, livecases, live
from . import _sim

PROPERTY = "C13"
LEVEL = "exploration"
DISTINCT_RULE = (
    "metamorphic whole-run differential: run(A) vs run(A+B) vs run(B+A) on seeded markets and scripts (shared or separate streams, shared client); fault injection: an "
    "exception at one callback invocation (strategy x callback kind x index, user middleware, raw-data / sports-data / custom-event callbacks) and comparison of every other "
    "strategy's received sequence with the uninjected run; distinct = (differential shape) and (callback kind, injected strategy position) cells"
)
RULES = ["differential", "injection", "mw-before-strategies", "live-callbacks", "sports-callbacks"]
MINIMA = {"quick": {"rule_differential": 500, "rule_injection": 500, "rule_live-callbacks": 100}, "thorough": {"rule_differential": 10000}}
ASSUMPTIONS = [
    "ledger = per order (market, runner, side, type, price, size, status path, fragments, buckets, timestamps, profit), ids replaced by ordinals",
    "process_closed_market is not in the property's list of protected callbacks and is not injected",
    "shared client transaction limit is None (a shared limit is C18's subject)",
]
WATCHDOG = {"quick": 900, "thorough": 3600}


def plan(tier, seed):
    n = 1200 if tier == "quick" else 12000
    cases = [{"mode": "diff", "seed": seed, "idx": i, "separate": i % 6 == 5} for i in range(n)]
    # both strategies name the same listener filter with different values: each must get its own filter's updates
    cases += [{"mode": "diff", "seed": seed, "idx": i, "separate": "samekeys"} for i in range(0, n, 8)]
    m = 2000 if tier == "quick" else 40000
    cases += [{"mode": "inject", "seed": seed, "idx": i} for i in range(m)]
    cases += [{"mode": "live", "seed": seed, "idx": i} for i in range(120 if tier == "quick" else 1200)]
    cases += [{"mode": "sports", "seed": seed, "idx": i} for i in range(200 if tier == "quick" else 3000)]
    # directed case for the listed finding C13-second-stream-replays-market
    cases.insert(0, {"mode": "diff", "seed": seed, "idx": 5, "separate": True, "directed": True})
    # ... and for its other face, C13-second-stream-by-products
    cases.insert(1, {"mode": "diff", "seed": seed, "idx": 0, "separate": "samekeys", "kwargs": [{"inplay": None}, {"inplay": False}]})
    return cases


def ledger(tr, name, when="end"):
    rows = []
    mine = [(k, o) for k, o in tr.orders.items() if o.trade.strategy.name == name and o.status is not None]
    mine.sort(key=lambda ko: int(ko[0][1:]))
    for k, o in mine:
        path = [e["new"] for e in tr.status if e["o"] == k]
        base = (o.market_id, o.selection_id, o.handicap, o.side, type(o.order_type).__name__, getattr(o.order_type, "price", None), getattr(o.order_type, "size", None), getattr(o.order_type, "liability", None))
        if when == "closed":
            cl = [s for s in tr.samples.get(k, []) if s["phase"] == "closed"]
            if not cl:
                rows.append((base, "no-closure-sample"))
                continue
            s = cl[0]
            rows.append((base, s["status"], tuple(map(tuple, s["frags"])), s["sm"], s["apm"], s["sc"], s["sl"], s["sv"], s.get("profit")))
        else:
            sim = o.simulated
            rows.append(
                (
                    base,
                    tuple(path),
                    tuple(map(tuple, sim.matched)),
                    sim.size_matched,
                    sim.average_price_matched,
                    sim.size_cancelled,
                    sim.size_lapsed,
                    sim.size_voided,
                    o.profit,
                    str(o.date_time_created),
                    str(o.responses.date_time_placed),
                    str(o.date_time_execution_complete),
                )
            )
    return rows


def _case_ab(desc):
    rng = simgen.mk_rng(desc["seed"], desc["idx"], 13)
    prof = ("hostile", "plain", "multi", "fastlat")[desc["idx"] % 4]
    d = {"seed": desc["seed"], "idx": desc["idx"], "profile": prof, "overrides": {"n_strategies": (2, 2), "script_params": {"n_orders": (2, 8), "modes": ("cross", "at", "rest", "join", "join", "rest")}}}
    case, snaps = _sim.build(d)
    case["strategies"][0]["name"] = "A"
    case["strategies"][1]["name"] = "B"
    if desc["idx"] % 5 == 1 and not desc.get("directed"):
        # resting orders are also filled from the sizes on offer (non-default): what one strategy takes is not taken from the other
        case["config"] = dict(case.get("config") or {}, simulation_available_prices=True)
    if desc["idx"] % 3 == 2:
        # not sharing clients: B trades through a second client
        case["clients"] = [{"username": "sim0"}, {"username": "sim1"}]
        for a in case["strategies"][1]["actions"]:
            if a["op"] == "place":
                a["client"] = 1
    if desc.get("directed"):
        # A rests an order that is still live at closure; B subscribes with different listener_kwargs
        from .. import marketgen as G

        m = "1.200000913"
        mf = G.MarketFile(m, [(901, 0, 50.0), (902, 0, 50.0)], bsp=False)
        t = G.T0
        for i in range(8):
            t += 1000
            mf.emit(t, rc={(901, 0): {"atb": {2.0: 50.0}, "atl": {3.0: 50.0}, "trd": {2.5: 10.0 * (i + 1)}}})
        t += 1000
        mf.emit(t, md_changes={"status": "SUSPENDED"})
        t += 1000
        mf.emit(t, md_changes={"status": "CLOSED"}, runner_md={(901, 0): {"status": "WINNER"}, (902, 0): {"status": "LOSER"}})
        case["markets"] = [{"id": m, "text": mf.text()}]
        case["strategies"][0]["actions"] = [{"m": m, "at": 6, "op": "place", "ref": "a", "sel": [901, 0], "side": "BACK", "price": 2.5, "size": 100.0, "persistence": "PERSIST"}]
        case["strategies"][1]["actions"] = []
        case["config"] = {"place_latency": 0.0}
    return case


def run_diff(desc, out):
    case = _case_ab(desc)
    a, b = case["strategies"]
    if desc["separate"]:
        b = dict(b, listener_kwargs={"inplay": None, "seconds_to_start": None, "max_inplay_seconds": None, "cumulative_runner_tv": True})
    samekeys = desc["separate"] == "samekeys"
    variants = {"A": [a], "AB": [a, b], "BA": [b, a]}
    if samekeys:
        rng = simgen.mk_rng(desc["seed"], desc["idx"], 131)
        # (falsy values are filters too: inplay=False means "pre-play only", not "no filter")
        ka, kb = desc.get("kwargs") or rng.choice((({"seconds_to_start": 600}, {"seconds_to_start": 20}), ({"inplay": False}, {"inplay": True}), ({"max_inplay_seconds": 3}, {"max_inplay_seconds": 600}), ({"inplay": True}, {"inplay": None}), ({"inplay": False}, {}), ({}, {"inplay": False}), ({"inplay": False}, {"inplay": None})))
        a, b = dict(a, listener_kwargs=ka), dict(b, listener_kwargs=kb)
        variants = {"A": [a], "B": [b], "AB": [a, b], "BA": [b, a]}
    ledgers = {}
    received = {}
    for name, sts in variants.items():
        c = dict(case, strategies=copy.deepcopy(sts))
        tr = simrun.run_case(c)
        received[name] = {s_.name: list(s_.received) for s_ in tr.strategies}
        if O.abort_violation(tr, out):
            return
        for sw in tr.swallowed:
            # nobody injected anything here: the simulation's own middleware raised, matching of that update was skipped
            out.v("simulated-middleware-raised", {"exc": sw["type"], "where": sw["stack"][-1] if sw["stack"] else "?"}, swallowed=sw, variant=name)
        ledgers[name] = (ledger(tr, "A", "end"), ledger(tr, "A", "closed"))
    out.rule("differential")
    out.d("diff:%s:%d:%d" % (desc["separate"], len(ledgers["A"][0]), len(case["markets"])))
    if samekeys:
        # what each strategy is handed depends on its own subscription only (the replay of the market for the second stream is
        # the listed finding and concerns the ledgers, not the deliveries)
        for other in ("AB", "BA"):
            for nm in ("A", "B"):
                out.rule("delivery")
                alone, tog = received[nm][nm], received[other][nm]
                if alone != tog:
                    i = next((j for j, (x, y) in enumerate(zip(alone, tog)) if x != y), min(len(alone), len(tog)))
                    core = lambda seq: [x for x in seq if x[0] in ("check", "book", "closed")]  # noqa: E731  (the market data itself)
                    out.v("delivery-differs-with-co-running-strategy", {"registration": other, "second": other[1] == nm, "market_data": core(alone) != core(tog)}, strategy=nm, index=i, alone=alone[i : i + 2], together=tog[i : i + 2], n_alone=len(alone), n_together=len(tog), kwargs=(ka, kb))
        return
    for other in ("AB", "BA"):
        for wi, when in enumerate(("end", "closed")):
            if ledgers["A"][wi] != ledgers[other][wi]:
                first = next((i for i, (x, y) in enumerate(zip(ledgers["A"][wi], ledgers[other][wi])) if x != y), None)
                out.v(
                    "ledger-differs-with-co-running-strategy",
                    {"separate_streams": desc["separate"], "when": when, "registration": other},
                    index=first,
                    alone=ledgers["A"][wi][first] if first is not None and first < len(ledgers["A"][wi]) else len(ledgers["A"][wi]),
                    together=ledgers[other][wi][first] if first is not None and first < len(ledgers[other][wi]) else len(ledgers[other][wi]),
                )


KINDS = ("check", "book", "orders", "new_market")


def run_inject(desc, out):
    rng = simgen.mk_rng(desc["seed"], desc["idx"], 131)
    case = _case_ab({"seed": desc["seed"], "idx": desc["idx"] // 7})
    base = simrun.run_case(copy.deepcopy(case), observers=[observers.trade_accounting, observers.blotter_coherence])
    if O.abort_violation(base, out):
        return
    recv0 = {s.name: list(s.received) for s in base.strategies}
    ledger0 = {s.name: ledger(base, s.name, "end") for s in base.strategies}
    audit0 = [(c["kind"], c["market"], str(c.get("pt"))) for c in base.callbacks]
    target = rng.choice(("A", "B", "middleware", "A", "B"))
    c2 = copy.deepcopy(case)
    kind = None
    in_tx = target != "middleware" and rng.random() < 0.35
    if in_tx:
        # the exception is raised in the middle of a callback, inside a `with market.transaction()` block after
        # some requests were accepted
        st_ = next(s for s in c2["strategies"] if s["name"] == target)
        by_step = {}
        for a in st_["actions"]:
            by_step.setdefault((a["m"], a["at"]), []).append(a)
        if not by_step:
            return
        key = rng.choice(sorted(by_step))
        acts = []
        for k2, items in by_step.items():
            if k2 == key:
                acts.append({"m": k2[0], "at": k2[1], "op": "batch", "items": items, "execute_after": [], "raise_after": rng.randrange(len(items))})
            else:
                acts += items
        acts.sort(key=lambda a: a["at"])
        st_["actions"] = acts
        kind = "in_tx"
    elif target == "middleware":
        n_inv = len(base.updates)
        at = rng.randrange(max(1, n_inv))

        def mk(tr):
            class Boom(simrun.Middleware):
                def __init__(self):
                    self.n = 0

                def __call__(self, market):
                    i = self.n
                    self.n += 1
                    if i == at:
                        tr.injected.append({"seq": tr.nseq(), "tick": tr.tick, "strategy": "middleware", "kind": "middleware", "n": i})
                        raise ValueError("injected in user middleware")

            return Boom()

        c2["_middlewares"] = [mk]
        kind = "middleware"
    elif rng.random() < 0.2:
        # the strategy's work inside the documented real_time() block fails (flumine's own context manager is left by an exception)
        st_ = next(s for s in c2["strategies"] if s["name"] == target)
        books = [r for r in recv0[target] if r[0] == "book"]
        if not books:
            return
        mk_ = rng.choice(sorted({r[1] for r in books}))
        st_["actions"] = sorted(st_["actions"] + [{"m": mk_, "at": rng.randrange(max(1, sum(1 for r in books if r[1] == mk_) // 2 + 1)), "op": "real_time_raise"}], key=lambda a: a["at"])
        kind = "real_time"
    else:
        kind = rng.choice(KINDS)
        counts = sum(1 for r in recv0[target] if r[0] == kind)
        if counts == 0:
            kind = "book"
            counts = sum(1 for r in recv0[target] if r[0] == kind)
        if counts == 0:
            return
        n = rng.randrange(counts)
        for s in c2["strategies"]:
            if s["name"] == target:
                s["raise_at"] = [[kind, n]]
    tr = simrun.run_case(c2, observers=[observers.trade_accounting, observers.blotter_coherence])
    tags = {"callback": kind, "target": target}
    out.rule("injection")
    out.d("inj:%s:%s" % (kind, target))
    if tr.abort:
        out.v("injected-exception-escaped-run", tags, abort=tr.abort)
        return
    if not tr.injected:
        out.c("injection_not_reached")
        return
    others = [s for s in tr.strategies if s.name != target]
    for s in others:
        # scripts are deterministic; an exception in another strategy's callback must not change what this one receives
        if list(s.received) != recv0[s.name]:
            i = next((j for j, (x, y) in enumerate(zip(s.received, recv0[s.name])) if x != y), min(len(s.received), len(recv0[s.name])))
            out.v("other-strategy-delivery-changed", tags, strategy=s.name, index=i, got=s.received[i : i + 2], expected=recv0[s.name][i : i + 2], n_got=len(s.received), n_expected=len(recv0[s.name]))
        # ... nor what happens to its orders (same requests, same fills, same timestamps), unless the injected strategy trades less
        # afterwards and so leaves more for it: compared when the exception does not cut the other one's own requests
        if kind == "real_time" and ledger(tr, s.name, "end") != ledger0[s.name]:
            out.v("other-strategy-ledger-changed", tags, strategy=s.name)
    audit1 = [(c["kind"], c["market"], str(c.get("pt"))) for c in tr.callbacks]
    if target != "middleware" and kind != "orders" and audit1 != audit0:
        # (the auditor's process_orders calls depend on whether orders exist, which the injected strategy may change)
        pass
    if [x for x in audit1 if x[0] in ("book", "new_market", "closed")] != [x for x in audit0 if x[0] in ("book", "new_market", "closed")]:
        out.v("observer-delivery-changed", tags, n_got=len(audit1), n_expected=len(audit0))
    # middleware still runs before strategies on every update
    upd = {u["tick"]: u["seq"] for u in tr.updates}
    for c in tr.callbacks:
        if c["kind"] in ("book", "orders") and c["tick"] in upd:
            out.rule("mw-before-strategies")
            if upd[c["tick"]] > c["seq"]:
                out.v("strategy-called-before-middleware", tags, callback=c)
    for v in tr.online:
        if v["property"] in ("C10", "C15"):
            out.v("state-inconsistent-after-contained-exception", dict(tags, rule=v["rule"]), inner=v)
    # accepted requests are still sent exactly once and nothing stays queued (C02's checker on this trace)
    o2 = O.Out("C02")
    O.c02_requests(tr, o2, "Betfair", "Simulated")
    for v in o2.violations:
        out.v("state-inconsistent-after-contained-exception", dict(tags, rule=v["rule"]), inner=v)


def run_live(desc, out):
    """raw-data, sports-data and custom-event callbacks of a live-mode instance"""
    from flumine import BaseStrategy
    from flumine.events import events

    rng = simgen.mk_rng(desc["seed"], desc["idx"], 132)

    class Rec(BaseStrategy):
        def __init__(self, name, bad):
            super().__init__(market_filter={}, name=name)
            self.bad = bad
            self.got = []

        def process_raw_data(self, clk, publish_time, datum):
            self.got.append(("raw", publish_time, datum.get("id")))
            if self.bad == "raw":
                raise ValueError("injected raw")

        def check_sports_data(self, market, sports_data):
            self.got.append(("check_sports", sports_data.market_id))
            if self.bad == "check_sports":
                raise ValueError("injected")
            return True

        def process_sports_data(self, market, sports_data):
            self.got.append(("sports", sports_data.market_id))
            if self.bad == "sports":
                raise ValueError("injected")

    bad = rng.choice(("raw", "sports", "check_sports", "custom", "orders_book", "orders_nobook", "book"))
    order = rng.random() < 0.5
    x, y = Rec("X", bad if bad != "custom" else None), Rec("Y", None)
    tr, w = livecases.new_world([x, y] if order else [y, x])
    try:
        mid = w.add_market_file(livecases.static_market())
        if bad in ("orders_book", "orders_nobook", "book"):
            # market-book and order callbacks of a live instance; with "nobook" the order stream reports bets of a market that has
            # not been seen on the market stream yet (its Market exists without a book)
            def process_orders(self, market, orders):
                self.got.append(("orders", market.market_id, len(orders)))
                if self.bad in ("orders_book", "orders_nobook"):
                    raise ValueError("injected orders")

            def process_market_book(self, market, market_book):
                self.got.append(("book", market.market_id))
                if self.bad == "book":
                    raise ValueError("injected book")

            Rec.process_orders = process_orders
            Rec.process_market_book = process_market_book
            Rec.check_market_book = lambda self, market, market_book: True
            if bad != "orders_nobook":
                w.next_book(mid)
            tw = {s_.name: livecases.make_strategy(s_.name) for s_ in (x, y)}
            for s_ in (x, y):
                for _ in range(rng.randint(1, 2)):
                    o = livecases.make_order(tw[s_.name], mid, sel=rng.choice((701, 702)), side="BACK", price=3.0, size=2.0)
                    w.exchange._new_bet(mid, o.create_place_instruction(), None)
            n = rng.randint(2, 4)
            tags = {"callback": bad, "target": "X"}
            escaped = None
            for i in range(n):
                try:
                    w.snapshot()
                    if bad != "orders_nobook" or i > 0:
                        w.next_book(mid)
                except Exception as e:  # noqa
                    escaped = repr(e)
                    break
            out.rule("live-callbacks")
            out.d("live:%s:%s" % (bad, order))
            if escaped:
                out.v("injected-exception-escaped-handler", tags, error=escaped)
            yo = sum(1 for g in y.got if g[0] == "orders")
            yb = sum(1 for g in y.got if g[0] == "book")
            books = n + 1 if bad != "orders_nobook" else n - 1
            # Y has orders in the market: one process_orders call per order-stream update, and one per market book
            if yb != books or yo < n:
                out.v("other-strategy-delivery-changed", tags, orders_calls=yo, book_calls=yb, n=n, expected_books=books)
            return
        w.next_book(mid)
        n = rng.randint(2, 6)
        tags = {"callback": bad, "target": "X"}
        escaped = None
        for i in range(n):
            try:
                w.fw._process_raw_data(events.RawDataEvent((w.stream_id, "clk", 1000 + i, [{"id": mid, "rc": []}, {"id": "1.999", "rc": []}])))
                sd = types.SimpleNamespace(market_id=mid, streaming_unique_id=w.stream_id)
                w.fw._process_sports_data(events.SportsDataEvent([sd]))

                def cb(flumine, event):
                    if bad == "custom":
                        raise ValueError("injected custom")

                w.fw._process_custom_event(events.CustomEvent({"i": i}, cb))
            except Exception as e:  # noqa
                escaped = repr(e)
                break
        out.rule("live-callbacks")
        out.d("live:%s:%s" % (bad, order))
        if escaped:
            out.v("injected-exception-escaped-handler", tags, error=escaped)
        exp_raw = 2 * n
        if sum(1 for g in y.got if g[0] == "raw") != exp_raw or sum(1 for g in y.got if g[0] == "sports") != n:
            out.v("other-strategy-delivery-changed", tags, got=len(y.got), raw=sum(1 for g in y.got if g[0] == "raw"), sports=sum(1 for g in y.got if g[0] == "sports"), n=n)
    finally:
        livecases.finish(w)


def run_sports(desc, out):
    """sports-data callbacks in simulation: SimulatedSportsDataMiddleware over a synthetic cricket file; one strategy
    raises in check_sports_data / process_sports_data, the other must still receive every sports update once"""
    import json
    import os
    import shutil
    import tempfile
    from flumine import BaseStrategy
    from flumine.markets.middleware import SimulatedSportsDataMiddleware
    from .. import marketgen as G

    rng = simgen.mk_rng(desc["seed"], desc["idx"], 133)
    mid = "1.2%08d" % rng.randint(0, 99999)
    d = G.Director(rng, mid, {"p_inplay": 0.5, "n_pre": (6, 14), "spacing_ms": (500, 1000, 2000), "p_removal": 0.0})
    mf = d.run()
    pts = [l["pt"] for l in mf.lines]
    sdir = tempfile.mkdtemp(prefix="vfsports_")
    try:
        n_sd = rng.randint(2, 8)
        sd_pts = sorted(rng.randint(pts[0], pts[-2]) for _ in range(n_sd))
        with open(os.path.join(sdir, mid), "w") as f:
            for i, pt in enumerate(sd_pts):
                f.write(json.dumps({"op": "ccm", "id": 2, "clk": str(i), "pt": pt, "cc": [{"eventId": "30000001", "marketId": mid, "fixtureInfo": {"fixtureStatus": "IN_PLAY", "eventStatus": "BALL_IN_PROGRESS", "i": i}}]}) + "\n")
        bad_kind = rng.choice(("check_sports", "sports"))
        bad_n = rng.randrange(n_sd)
        got = {"X": [], "Y": []}

        def mk(name, bad):
            class Rec(BaseStrategy):
                def check_market_book(self, market, market_book):
                    return True

                def check_sports_data(self, market, sports_data):
                    got[name].append(("check", sports_data.publish_time_epoch))
                    if bad and bad_kind == "check_sports" and sum(1 for g in got[name] if g[0] == "check") - 1 == bad_n:
                        raise ValueError("injected check_sports_data")
                    return True

                def process_sports_data(self, market, sports_data):
                    got[name].append(("process", sports_data.publish_time_epoch))
                    if bad and bad_kind == "sports" and sum(1 for g in got[name] if g[0] == "process") - 1 == bad_n:
                        raise ValueError("injected process_sports_data")

            return lambda tr, fw, base_filter: Rec(market_filter=dict(base_filter), name=name)

        order = rng.random() < 0.5
        extras = [mk("X", True), mk("Y", False)]
        if not order:
            extras.reverse()
        case = {"seed": desc["seed"], "idx": desc["idx"], "markets": [{"id": mid, "text": mf.text()}], "strategies": [], "_middlewares": [lambda tr: SimulatedSportsDataMiddleware("cricketSubscription", sdir)]}
        tr = simrun.run_case(case, extra_strategies=extras)
        tags = {"callback": bad_kind, "target": "X"}
        out.rule("sports-callbacks")
        out.d("sports:%s:%s" % (bad_kind, order))
        if tr.abort:
            out.v("injected-exception-escaped-run", tags, abort=tr.abort)
            return
        # an update is delivered once the market clock has passed it (strictly); the last ones may never be
        last = pts[-2] if mf.lines[-1]["mc"][0].get("marketDefinition", {}).get("status") == "CLOSED" else pts[-1]
        exp = [p_ for p_ in sd_pts if p_ < last]
        y_proc = [g[1] for g in got["Y"] if g[0] == "process"]
        if y_proc != exp:
            out.v("other-strategy-delivery-changed", tags, got=y_proc, expected=exp)
    finally:
        shutil.rmtree(sdir, ignore_errors=True)


def run(desc):
    out = O.Out(PROPERTY)
    if desc["mode"] == "sports":
        run_sports(desc, out)
        return out.result()
    if desc["mode"] == "diff":
        run_diff(desc, out)
    elif desc["mode"] == "inject":
        run_inject(desc, out)
    else:
        run_live(desc, out)
    return out.result(sample={"case": desc} if desc["idx"] < 2 else None)
