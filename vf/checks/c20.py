"""C20 - market closure is processed once, with results, for the right strategies."""
import collections
import datetime as _dt

from .. import oracles as O
from .. import simrun, simgen, livecases, live
from .. import marketgen as G
from . import _sim

PROPERTY = "C20"
LEVEL = "exploration"
DISTINCT_RULE = (
    "closure scripts: repeated CLOSED lines, close -> re-open -> close, first line CLOSED, several markets closing in any order (sequential and event-grouped), 1-4 "
    "strategies with different subscriptions (incl. an empty filter), 1-3 clients, raw-data recorder mode, live mode with a virtual clock for the one-hour rule; "
    "distinct = (script shape, strategies, clients, mode) cells"
)
RULES = ["closing-update", "callback", "release", "reopen", "live-removal", "raw-close", "line-result"]
MINIMA = {"quick": {"rule_closing-update": 1500, "rule_callback": 3000, "rule_release": 1500, "rule_reopen": 150, "rule_live-removal": 300, "rule_raw-close": 100}, "thorough": {"rule_closing-update": 50000}}
ASSUMPTIONS = [
    "all counts are per closing update (the statement's 'for each closing update received')",
    "middleware state = SimulatedMiddleware.markets entry of the market; runner accounting = strategy._invested keys of the market",
]
WATCHDOG = {"quick": 900, "thorough": 3600}


def plan(tier, seed):
    n = 3000 if tier == "quick" else 40000
    cases = [{"mode": "sim", "seed": seed, "idx": i} for i in range(n)]
    cases += [{"mode": "live", "seed": seed, "idx": i} for i in range(120 if tier == "quick" else 4000)]
    cases += [{"mode": "raw", "seed": seed, "idx": i} for i in range(200 if tier == "quick" else 3000)]
    cases += [{"mode": "line", "seed": seed, "idx": i} for i in range(60 if tier == "quick" else 1200)]
    # directed case for the listed finding C20-first-update-closed
    cases.insert(0, {"mode": "sim", "seed": seed, "idx": 3, "directed_first_closed": True})
    return cases


def closure_market(rng, mid, shape, t0, event_id="30000001"):
    d = G.Director(rng, mid, {"close": False, "p_inplay": 0.3, "n_pre": (3, 8), "p_removal": 0.1, "n_runners": (2, 4), "handicaps": "lines" if rng.random() < 0.25 else False, "p_bsp": 0.5}, t0=t0, event_id=event_id)
    if shape == "first_closed":
        mf = d.mf
        d.t = t0
        mf.emit(d.step_time(), md_changes={"status": "CLOSED"}, runner_md={k: {"status": "LOSER"} for k in mf.keys})
        if rng.random() < 0.5:
            mf.emit(d.step_time(), force_md=True)
        return mf
    mf = d.run()
    if shape == "plain":
        d.close()
    elif shape == "repeat":
        d.close(repeat=rng.randint(1, 3))
    elif shape == "resettle":
        # a second CLOSED update with a different result (re-settlement): the later closing book is the final one
        d.close()
        ks = [k for k in mf.keys if mf._runner_md(k)["status"] in ("WINNER", "LOSER")]
        if len(ks) >= 2:
            flip = {k: {"status": "LOSER" if mf._runner_md(k)["status"] == "WINNER" else "WINNER"} for k in ks[:2]}
            mf.emit(d.step_time(), md_changes={"version": mf.md["version"] + 1}, runner_md=flip)
    elif shape == "reopen":
        d.close(repeat=rng.choice((0, 1)))
        # re-open with a new image, trade on, close again
        st = {k: {"status": "ACTIVE"} for k in d.mf.keys if d.mf._runner_md(k)["status"] in ("WINNER", "LOSER")}
        rc = {k: d.book_for(k) for k in st}
        mf.emit(d.step_time(), md_changes={"status": "OPEN", "version": mf.md["version"] + 1}, runner_md=st, rc=rc, img=True)
        for _ in range(rng.randint(1, 4)):
            d.open_tick()
        d.close(repeat=rng.choice((0, 1)))
    elif shape == "no_close":
        pass
    return mf


def run_sim(desc, out):
    rng = simgen.mk_rng(desc["seed"], desc["idx"], 20)
    nm = rng.choice((1, 1, 2, 3, 4))
    ev = rng.random() < 0.4
    shapes = [rng.choice(("plain", "plain", "repeat", "reopen", "no_close", "first_closed", "resettle") if not desc.get("directed_first_closed") else ("first_closed",)) for _ in range(nm)]
    if desc.get("directed_first_closed"):
        nm, shapes, ev = 1, ["first_closed"], False
    base = rng.randint(0, 9000) * 10
    mfs = [closure_market(rng, "1.2%08d" % (base + i), shapes[i], G.T0 + (rng.randint(0, 5000) if ev else i * 3_600_000)) for i in range(nm)]
    snaps = {mf.market_id: G.read_lines(mf.lines) for mf in mfs}
    ns = rng.choice((1, 2, 3, 4))
    ncl = rng.choice((1, 1, 2, 3))
    strategies = []
    for s in range(ns):
        subs = sorted(rng.sample([mf.market_id for mf in mfs], rng.randint(1, nm)))
        actions = []
        for mid in subs:
            if len(snaps[mid]) > 2:
                acts = simgen.gen_script(rng, snaps[mid], mid, "S%d" % s, {"n_orders": (0, 4), "p_cancel": 0.2, "p_replace": 0.1}, ref_prefix="m%s_" % mid[-2:])
                for a in acts:
                    if a["op"] == "place":
                        a["client"] = rng.randrange(ncl)
                actions += acts
        st_ = {"name": "S%d" % s, "markets": subs, "actions": actions}
        if rng.random() < 0.35:
            st_["touch_contexts_on_close"] = True  # end-of-market bookkeeping reads the runner accounting inside process_closed_market
        if ev and nm > 1 and rng.random() < 0.4:
            # cross-market trading: a request on a market of the event the strategy is NOT subscribed to, made during an update of one it is
            others = [mf.market_id for mf in mfs if mf.market_id not in subs and len(snaps[mf.market_id]) > 3]
            if others and subs:
                b_ = rng.choice(others)
                a_ = rng.choice(subs)
                sb = snaps[b_]
                for _ in range(rng.randint(1, 2)):
                    j = rng.randrange(1, len(sb) - 1)
                    if sb[j]["status"] != "OPEN":
                        continue
                    ja = [i_ for i_, x in enumerate(snaps[a_]) if x["pt"] > sb[j]["pt"] and (j + 1 >= len(sb) or x["pt"] < sb[j + 1]["pt"]) and x["status"] != "CLOSED"]
                    keys = [k_ for k_, r_ in sb[j]["runners"].items() if r_["status"] == "ACTIVE"]
                    if ja and keys:
                        k_ = rng.choice(keys)
                        st_["actions"].append({"m": b_, "at": j, "via": [a_, ja[0]], "op": "place", "ref": "x%s_%d" % (b_[-2:], j), "sel": list(k_), "side": "BACK", "price": 1000.0, "size": 2.0, "persistence": "LAPSE", "client": rng.randrange(ncl)})
        strategies.append(st_)
    case = {"seed": desc["seed"], "idx": desc["idx"], "markets": [{"id": mf.market_id, "text": mf.text()} for mf in mfs], "strategies": strategies, "clients": [{"username": "sim%d" % i} for i in range(ncl)]}
    if ev:
        case["event_processing"] = True
    # listener filters drop OPEN updates only: a closing update always reaches the framework
    lk = rng.choice(({}, {}, {"max_inplay_seconds": 2}, {"inplay": True}, {"seconds_to_start": 30}, {"inplay": False}, {"max_inplay_seconds": 0.5, "seconds_to_start": 600})) if not desc.get("directed_first_closed") else {}
    if lk:
        case["listener_kwargs"] = dict(lk)
    empty_filter = rng.random() < 0.4
    got_empty = []

    def extra(tr, fw, base_filter):
        from flumine import BaseStrategy

        class Empty(BaseStrategy):
            def process_closed_market(self, market, market_book):
                got_empty.append((market.market_id, market_book.publish_time_epoch))

        return Empty(market_filter={}, name="EMPTY")

    def mark_cleared(tr_, market, phase):
        # what the market-closure worker does in live trading once the exchange has cleared the market
        if phase == "closed":
            market.orders_cleared.append("cleared")
            market.market_cleared.append("cleared")

    tr = simrun.run_case(case, extra_strategies=[extra] if empty_filter else None, observers=[mark_cleared])
    if O.abort_violation(tr, out):
        return
    fw = tr.framework
    subs = {s["name"]: set(s["markets"]) for s in strategies}
    recv = {s.name: [r for r in s.received if r[0] == "closed"] for s in tr.strategies}
    shape_tag = "+".join(sorted(set(shapes)))
    out.d("c20:%s:%d:%d:%s:%s" % (shape_tag, ns, ncl, ev, empty_filter))
    delivered = {(tk["market"], tk["pt"]) for tk in tr.ticks if tk["status"] == "CLOSED"}
    for m_, sn in snaps.items():
        for s_ in sn:
            if s_["status"] == "CLOSED":
                out.rule("closing-line")
                if (m_, s_["pt"]) not in delivered:
                    out.v("closing-update-never-delivered", {"filters": ",".join(sorted(lk)) or "-"}, market=m_, pt=s_["pt"])
    seen_open = set()
    for i, tk in enumerate(tr.ticks):
        if tk["status"] != "CLOSED":
            seen_open.add(tk["market"])
            continue
        m, pt = tk["market"], tk["pt"]
        out.rule("closing-update")
        cl = [c for c in tr.closes if c["tick"] == i]
        tags = {"shape": shape_tag, "known_market": m in seen_open}
        if len(cl) != 1:
            out.v("close-handler-not-called-once", tags, n=len(cl), market=m)
            continue
        c = cl[0]
        if not c["known"]:
            out.v("closing-update-dropped-market-unknown", {"first_update_closed": m not in seen_open}, market=m, pt=pt)
            continue
        if c["closed_after"] is not True:
            out.v("market-not-marked-closed", tags, market=m)
        if c.get("book_pt_after") != pt:
            out.v("market-book-is-not-the-closing-book", tags, market=m, got=c.get("book_pt_after"), expected=pt)
        # every order carries the result of THIS closing update
        snap = next((s_ for s_ in snaps[m] if s_["pt"] == pt and s_["status"] == "CLOSED"), None)
        if snap is not None:
            for k_, ss in tr.samples.items():
                for smp in ss:
                    if smp["phase"] == "closed" and smp["tick"] == i and smp["market"] == m:
                        out.rule("order-result")
                        want_status = snap["runners"].get(tuple(smp["sel"]), {}).get("status")
                        if smp["runner_status"] != want_status:
                            out.v("order-result-not-from-this-closing-update", dict(tags, got=smp["runner_status"], want=want_status), order=k_, market=m, pt=pt)
        lo, hi = c["seq"], c["end_seq"]
        logs = [l for l in tr.logs if lo < l["seq"] < hi]
        n_cm = sum(1 for l in logs if l["type"] == "CLEARED_MARKETS")
        n_co = sum(1 for l in logs if l["type"] == "CLEARED_ORDERS_META")
        n_close = sum(1 for l in logs if l["type"] == "CLOSE_MARKET")
        has_orders = any(r["kind"] == "PLACE" and r.get("result") is True and r["market"] == m and r["seq"] < lo for r in tr.requests)
        if n_cm != ncl:
            out.v("cleared-market-summaries-differ", dict(tags, got=min(n_cm, 3), clients=ncl), market=m)
        if n_co != (1 if has_orders else 0):
            out.v("cleared-orders-report-count-differs", dict(tags, got=n_co, has_orders=has_orders), market=m)
        if n_close != 1:
            out.v("close-event-not-logged-once", dict(tags, got=n_close), market=m)
        for name, markets in subs.items():
            out.rule("callback")
            got = [r for r in recv[name] if r[1] == m and r[2] == pt]
            want = 1 if m in markets else 0
            if len(got) != want:
                out.v("closed-callback-count-differs", dict(tags, subscribed=m in markets, got=min(len(got), 3)), strategy=name, market=m, pt=pt)
        if empty_filter:
            out.rule("callback")
            if sum(1 for g in got_empty if g == (m, pt)) != 1:
                out.v("closed-callback-count-differs", dict(tags, subscribed="empty-filter", got=sum(1 for g in got_empty if g == (m, pt))), strategy="EMPTY", market=m)
        # released after the close (simulation removes without clearing the market object)
        out.rule("release")
        nxt = [u for u in tr.updates if u["market"] == m and u["tick"] > i]
        if not nxt:
            mw = next(x for x in fw._market_middleware if type(x).__name__ == "SimulatedMiddleware")
            if m in mw.markets:
                out.v("middleware-state-not-released", tags, market=m)
            for st_ in fw.strategies:
                if any(k[0] == m for k in st_._invested):
                    out.v("runner-contexts-not-released", tags, market=m, strategy=st_.name)
        rem = [r for r in tr.removes if lo < r["seq"] < hi and r["market"] == m]
        if len(rem) != 1:
            out.v("market-not-removed-once-at-close", dict(tags, got=len(rem)), market=m)
    # every order of a closed market carries the result and the settlement terms
    closed_markets = {c["market"] for c in tr.closes if c["known"]}
    for k, o in tr.orders.items():
        if o.market_id in closed_markets and o.status is not None and o.id in fw.markets.markets[o.market_id].blotter._orders:
            out.rule("order-result")
            if o.runner_status is None or o.market_type is None:
                out.v("order-without-result-after-close", {}, order=k, runner_status=o.runner_status, market_type=o.market_type)
    # re-open: the first update after a close finds the market open again
    for u in tr.updates:
        prev_close = [c for c in tr.closes if c["market"] == u["market"] and c["tick"] < u["tick"] and c["known"]]
        if prev_close:
            out.rule("reopen")
            if u["closed"]:
                out.v("market-not-reopened", {}, update=u)
            if u["cleared_flags"] != (0, 0):
                out.v("cleared-flags-not-reset-on-reopen", {}, update=u)


def run_live(desc, out):
    """live mode: the close is queued by _process_market_books and processed by the handler loop; markets are
    removed only once closed for more than an hour (virtual clock)"""
    from flumine.simulation.utils import SimulatedDateTime
    from flumine.events.events import CloseMarketEvent

    rng = simgen.mk_rng(desc["seed"], desc["idx"], 201)
    sdt = SimulatedDateTime()
    sdt.__enter__()
    now = [_dt.datetime(2022, 4, 19, 12, 0, 0)]
    sdt(now[0])
    got = collections.defaultdict(list)

    from flumine import BaseStrategy

    class Rec(BaseStrategy):
        def process_closed_market(self, market, market_book):
            got[self.name].append(market.market_id)

    sts = [Rec(market_filter={}, name="R0"), Rec(market_filter={"x": 1}, name="R1")]
    tr, w = livecases.new_world(sts)
    # R1 subscribed to another stream id only
    class _S:
        stream_id = 99

    sts[1].streams = [_S()]
    try:
        nm = rng.randint(2, 5)
        mids = []
        for i in range(nm):
            mid = "1.2000006%02d" % i
            path = livecases.static_market(market_id=mid, n_updates=6, closed_at=rng.choice((2, 3, 5)))
            mids.append(w.add_market_file(path))
        close_time = {}
        reopened = set()
        delivered = collections.Counter()
        for step in range(40):
            now[0] += _dt.timedelta(seconds=rng.choice((1, 600, 1799, 1801, 3599, 3601)))
            sdt(now[0])
            mid = rng.choice(mids)
            mb = w.next_book(mid)
            if mb is None:
                continue
            if mb.status == "CLOSED":
                delivered["all"] += 1
            if rng.random() < 0.35:
                # the market is also subscribed through a second stream (R1's): the same update arrives once more, right behind the
                # first and before the handler loop has processed anything
                import copy as _copy
                from flumine.events.events import MarketBookEvent

                mb2 = _copy.copy(mb)
                mb2.streaming_unique_id = 99
                w.fw._process_market_books(MarketBookEvent([mb2]))
                if mb.status == "CLOSED":
                    delivered["all"] += 1
                    delivered[99] += 1
            if rng.random() < 0.3 and w.market(mid) is not None and w.market(mid).closed:
                # what the market-closure worker does once cleared: first the orders, later (another poll) the market summary
                mk_ = w.market(mid)
                had_ = bool(mk_.market_cleared)
                mk_.orders_cleared.append("c")
                out.rule("reopen")
                if mk_.market_cleared and not had_:
                    out.v("cleared-flags-not-independent", {"reopened": mid in reopened or mid in close_time}, market=mid)
                mk_.market_cleared.append("c")
            while not w.fw.handler_queue.empty():
                ev = w.fw.handler_queue.get()
                if isinstance(ev, CloseMarketEvent):
                    before = set(w.fw.markets.markets)
                    w.fw._process_close_market(ev)
                    after = set(w.fw.markets.markets)
                    out.rule("live-removal")
                    for gone in before - after:
                        # (a repeated CLOSED book re-opens and re-closes the market: the latest closing time counts)
                        age = (now[0] - close_time[gone]).total_seconds() if gone in close_time else None
                        if age is None or age <= 3600 or gone in reopened:
                            out.v("live-market-removed-too-early", {"closed": gone in close_time, "reopened": gone in reopened}, market=gone, age=age)
                    close_time[ev.event.market_id] = now[0]
                    reopened.discard(ev.event.market_id)
                    mk = w.fw.markets.markets.get(ev.event.market_id)
                    if mk is not None and not mk.closed:
                        out.v("market-not-marked-closed", {"shape": "live", "known_market": True}, market=ev.event.market_id)
                    if mk is not None and mk.closed and rng.random() < 0.5:
                        # the market-closure worker: first poll finds the orders cleared, a later poll the market summary - two flags
                        had_ = bool(mk.market_cleared)
                        mk.orders_cleared.append("c")
                        out.rule("reopen")
                        if mk.market_cleared and not had_:
                            out.v("cleared-flags-not-independent", {"reopened": ev.event.market_id in reopened}, market=ev.event.market_id)
                        mk.market_cleared.append("c")
            mk = w.market(mid)
            if mk is not None and mb.status != "CLOSED":
                if mid in close_time:
                    reopened.add(mid)
                out.rule("reopen")
                if mk.closed or mk.orders_cleared or mk.market_cleared:
                    out.v("cleared-flags-not-reset-on-reopen" if not mk.closed else "market-not-reopened", {}, market=mid)
        closes = sum(1 for c in tr.closes if c["known"])
        out.rule("callback")
        # one callback per closing update RECEIVED (counted where the updates are handed to the framework): the strategy with the empty
        # filter for every one of them, the strategy of the second stream for those that came through its stream
        if len(got["R0"]) != delivered["all"] or len(got["R1"]) != delivered[99]:
            out.v("closed-callback-count-differs", {"shape": "live", "subscribed": "mixed", "got": min(len(got["R0"]), 3), "known_market": True, "two_streams": delivered[99] > 0}, r0=len(got["R0"]), r1=len(got["R1"]), closes_processed=closes, closing_updates_received=dict(delivered))
        out.d("live:%d" % nm)
    finally:
        livecases.finish(w)
        sdt.__exit__(None, None, None)


def run_raw(desc, out):
    """raw-data recorder mode: dict updates; a CLOSED definition queues a close event carrying the dict"""
    from flumine import BaseStrategy
    from flumine.events import events

    rng = simgen.mk_rng(desc["seed"], desc["idx"], 202)
    got = collections.defaultdict(list)

    class Rec(BaseStrategy):
        def process_raw_data(self, clk, publish_time, datum):
            got[(self.name, "raw")].append(datum.get("id"))

        def process_closed_market(self, market, datum):
            got[(self.name, "closed")].append((market.market_id, isinstance(datum, dict)))

    a, b = Rec(market_filter={"a": 1}, name="RA"), Rec(market_filter={"b": 1}, name="RB")
    tr, w = livecases.new_world([a, b])

    class _S:
        stream_id = 55

    b.streams = [_S()]
    try:
        mids = ["1.3000000%02d" % i for i in range(rng.randint(1, 4))]
        closes = collections.Counter()
        for step in range(rng.randint(4, 14)):
            mid = rng.choice(mids)
            sid = rng.choice((w.stream_id, 55))
            status = rng.choice(("OPEN", "OPEN", "SUSPENDED", "CLOSED"))
            datum = {"id": mid, "marketDefinition": {"status": status, "eventId": "1"}, "rc": []} if rng.random() < 0.7 else {"id": mid, "rc": []}
            w.fw._process_raw_data(events.RawDataEvent((sid, "clk", 1000 + step, [datum])))
            while not w.fw.handler_queue.empty():
                ev = w.fw.handler_queue.get()
                if isinstance(ev, events.CloseMarketEvent):
                    closes[(mid, sid)] += 1
                    w.fw._process_close_market(ev)
                    mk = w.fw.markets.markets.get(mid)
                    out.rule("raw-close")
                    if mk is None or not mk.closed:
                        out.v("market-not-marked-closed", {"shape": "raw", "known_market": True}, market=mid)
            mk = w.fw.markets.markets.get(mid)
            if mk is not None and mk.closed and not (datum.get("marketDefinition", {}).get("status") == "CLOSED"):
                out.v("market-not-reopened", {"mode": "raw"}, market=mid)
        for (mid, sid), n in closes.items():
            name = "RA" if sid == w.stream_id else "RB"
            other = "RB" if name == "RA" else "RA"
            out.rule("callback")
        exp_a = sum(n for (m_, s_), n in closes.items() if s_ == w.stream_id)
        exp_b = sum(n for (m_, s_), n in closes.items() if s_ == 55)
        if len(got[("RA", "closed")]) != exp_a or len(got[("RB", "closed")]) != exp_b:
            out.v("closed-callback-count-differs", {"shape": "raw", "subscribed": "by-stream", "got": 0, "known_market": True}, ra=len(got[("RA", "closed")]), rb=len(got[("RB", "closed")]), expected=(exp_a, exp_b))
        if any(not d for _, d in got[("RA", "closed")] + got[("RB", "closed")]):
            out.v("raw-close-without-datum", {}, got=got[("RA", "closed")][:3])
        out.d("raw:%d" % len(mids))
    finally:
        livecases.finish(w)


def run_line(desc, out):
    """A line market closes: every order receives the market's settlement terms - the line result the application supplied, whatever
    its value (a total of 0 is a result like any other)."""
    from . import c08

    case, snaps = c08.build({"seed": desc["seed"], "idx": desc["idx"], "kind": "line"})
    mid = case["markets"][0]["id"]
    want = (0, 0.0, 3.0, 17.0, 0, 1.0)[desc["idx"] % 6]
    case["line_results"] = {mid: want}
    tr = simrun.run_case(case)
    O.abort_violation(tr, out)
    n = 0
    for o, ss in tr.samples.items():
        closed = [s for s in ss if s["phase"] == "closed"]
        if not closed or closed[-1].get("ladder") != "LINE_RANGE":
            continue
        out.rule("line-result")
        n += 1
        got = closed[-1].get("line_result")
        if got is None or got != want:
            out.v("order-without-the-line-result-at-closure", {"result_is_zero": want == 0}, order=o, got=got, want=want)
    out.d("line:%s:%d" % (want, min(n, 4)))


def run(desc):
    out = O.Out(PROPERTY)
    if desc["mode"] == "line":
        run_line(desc, out)
        return out.result()
    if desc["mode"] == "sim":
        run_sim(desc, out)
    elif desc["mode"] == "live":
        run_live(desc, out)
    else:
        run_raw(desc, out)
    return out.result(sample={"case": desc} if desc["idx"] < 2 else None)
