"""C19 - order references are unique, valid and round-trip."""
import string
import threading

from .. import env

env.setup()
from .. import oracles as O
from .. import simgen

PROPERTY = "C19"
LEVEL = "exploration"
DISTINCT_RULE = (
    "orders are created through Trade.create_order in tight loops, from 16 threads, under the real and the simulated clock, for strategy names (empty, unicode, "
    "500 chars) and every separator; every reference is replayed through process_current_orders and through the cleared-orders (settlement) processing of a second framework instance; distinct = distinct references created"
)
RULES = ["unique", "charset", "separator", "roundtrip", "roundtrip_cleared", "config_separator"]
MINIMA = {"quick": {"rule_unique": 150000, "rule_separator": 500, "rule_config_separator": 500, "rule_roundtrip": 1000, "rule_roundtrip_cleared": 500}, "thorough": {"rule_unique": 3000000}}
ASSUMPTIONS = ["the exchange accepts upper/lower case letters, digits and - . _ + * : ; ~ (written down here, not read from flumine)", "distinct strategy names (same-name strategies are warned against and share a hash by construction)"]
VALID = set(string.ascii_letters) | set(string.digits) | set("-._+*:;~")
NAMES = ["", "a", "Strategy", "ünïcødé-стратегия-戦略", "x" * 500, "with space", "UPPER_lower-123", "\n\t", "S0", "S1"]


def plan(tier, seed):
    big = tier == "thorough"
    cases = []
    for i in range(8 if not big else 40):
        cases.append({"kind": "loop", "n": 12000 if not big else 40000, "name": NAMES[i % len(NAMES)], "sim_clock": i % 2 == 1, "i": i})
    # one long process: more orders than any counter padded to 5 digits can number
    cases.append({"kind": "loop", "n": 130000, "name": "long-running", "sim_clock": False, "i": 99, "all_lengths": True})
    for i in range(3 if not big else 20):
        cases.append({"kind": "threads", "threads": 16, "n": 2500 if not big else 5000, "i": i})
    cases.append({"kind": "separator"})
    cases.append({"kind": "config_sep"})
    for i in range(4 if not big else 20):
        cases.append({"kind": "replace_stream", "seed": seed, "i": i})
    for i in range(6 if not big else 30):
        cases.append({"kind": "roundtrip", "seed": seed, "i": i})
    for i in range(2 if not big else 8):
        cases.append({"kind": "dup_names", "seed": seed, "i": i})
    return cases


def _strategy(name):
    from flumine import BaseStrategy

    return BaseStrategy(market_filter={}, name=name, max_order_exposure=None, max_selection_exposure=None)


_CLASSES = None


def _order_classes():
    """the library's order class, two user subclasses of it (Trade.create_order(order=...)) and the Betdaq class"""
    global _CLASSES
    if _CLASSES is None:
        from flumine.order.order import BetfairOrder

        class TaggedOrder(BetfairOrder):
            pass

        class OtherOrder(TaggedOrder):
            pass

        _CLASSES = (BetfairOrder, TaggedOrder, OtherOrder, "betdaq")
    return _CLASSES


def _mk_order(strategy, sep="-", side="BACK", cls=None):
    from flumine.order.trade import Trade
    from flumine.order.ordertype import LimitOrder, BetdaqLimitOrder

    if cls == "betdaq":
        return Trade("1.23456", 12, 0, strategy).create_betdaq_order(side, BetdaqLimitOrder(2.0, 2.0, 1, 0, 0), sep=sep)
    if cls is not None:
        return Trade("1.23456", 12, 0, strategy).create_order(side, LimitOrder(2.0, 2.0), order=cls, sep=sep)
    return Trade("1.23456", 12, 0, strategy).create_order(side, LimitOrder(2.0, 2.0), sep=sep)


def _check_ref(out, ref):
    out.rule("charset")
    if len(ref) > 32:
        out.v("reference-too-long", {}, ref=ref, length=len(ref))
    if not set(ref) <= VALID:
        out.v("reference-invalid-characters", {}, ref=ref)


def run(case):
    import flumine
    from flumine import config as fconfig

    out = O.Out(PROPERTY)
    kind = case["kind"]
    fconfig.simulated = False
    if kind == "loop":
        st = _strategy(case["name"])
        from flumine.simulation.utils import SimulatedDateTime
        import datetime as _dt

        refs = []
        # every other loop mixes order classes (several classes creating orders at the same - simulated - instant)
        classes = _order_classes() if case["i"] % 4 >= 2 else (None,)
        nc = len(classes)
        if case["sim_clock"]:
            sdt = SimulatedDateTime()
            with sdt:
                sdt(_dt.datetime(2022, 1, 1, 12, 0, 0))
                for i in range(case["n"]):
                    if i % 1000 == 999:
                        sdt(_dt.datetime(2022, 1, 1, 12, 0, 0) + _dt.timedelta(milliseconds=i))
                    refs.append(_mk_order(st, cls=classes[i % nc]).customer_order_ref)
        else:
            for i in range(case["n"]):
                refs.append(_mk_order(st, cls=classes[i % nc]).customer_order_ref)
        out.rule("unique", len(refs))
        if len(set(refs)) != len(refs):
            out.v("duplicate-reference", {"threads": False, "sim_clock": case["sim_clock"]}, duplicates=len(refs) - len(set(refs)), example=[r for r in refs if refs.count(r) > 1][:2] if len(refs) < 50000 else None)
        for r in refs[:: max(1, len(refs) // 300)]:
            _check_ref(out, r)
        if case.get("all_lengths"):
            longest = max(refs, key=len)
            out.rule("charset")
            if len(longest) > 32:
                out.v("reference-too-long", {"after_many_orders": True}, ref=longest, length=len(longest), index=refs.index(longest))
        out.d("loop:%s:%s:%d:%d" % (case["i"], case["sim_clock"], len(set(refs)), nc))
        out.c("refs", len(set(refs)))
    elif kind == "threads":
        st = _strategy("T")
        res = [[] for _ in range(case["threads"])]
        start = threading.Barrier(case["threads"])

        def work(k):
            start.wait()
            mine = res[k]
            for _ in range(case["n"]):
                mine.append(_mk_order(st).customer_order_ref)

        ths = [threading.Thread(target=work, args=(k,)) for k in range(case["threads"])]
        for t in ths:
            t.start()
        for t in ths:
            t.join()
        refs = [r for l in res for r in l]
        out.rule("unique", len(refs))
        if len(set(refs)) != len(refs):
            out.v("duplicate-reference", {"threads": True, "sim_clock": False}, duplicates=len(refs) - len(set(refs)))
        out.d("threads:%s:%d" % (case["i"], len(set(refs))))
        out.c("refs", len(set(refs)))
    elif kind == "separator":
        from flumine.order.order import BetfairOrder

        st = _strategy("sep")
        cands = [chr(c) for c in range(0, 0x250)] + ["é", "ß", "→", "𝔘", "", "--", "ab", "-.", "  "]
        for c in cands:
            out.rule("separator")
            ok = len(c) == 1 and c in VALID
            try:
                o = _mk_order(st, sep=c)
                accepted = True
            except ValueError:
                accepted = False
            if accepted != ok:
                out.v("separator-validation-wrong", {"expected_valid": ok}, sep=c)
            if accepted:
                _check_ref(out, o.customer_order_ref)
                try:
                    o.sep = "é"
                    out.v("separator-setter-accepts-invalid", {}, sep="é")
                except ValueError:
                    pass
                if o.sep != c:
                    out.v("separator-changed-by-rejected-set", {}, sep=c)
        out.d("separator")
    elif kind == "config_sep":
        _config_sep(out)
    elif kind == "replace_stream":
        _replace_stream(case, out)
    elif kind == "roundtrip":
        _roundtrip(case, out)
    elif kind == "dup_names":
        _dup_names(case, out)
    return out.result(sample={"case": case} if case.get("i", 0) == 0 else None)


def _replace_stream(case, out):
    """A replaced bet keeps the customer reference of the bet it replaces.  When the order stream reports the new bet before the
    replaceOrders response has created the local replacement, that update belongs to no local order yet: it must not be attributed to
    the original order (whose own bet is the cancelled one)."""
    from .. import livecases

    rng = simgen.mk_rng(case["seed"], case["i"], 191)
    st = livecases.make_strategy("R%d" % case["i"])
    tr, w = livecases.new_world([st])
    try:
        mid = w.add_market_file(livecases.static_market())
        w.next_book(mid)
        m = w.market(mid)
        ex = w.exchange
        # several orders in one request (one explicit transaction): each instruction that reaches the exchange carries its own order's
        # reference, and the references come back to the orders that produced them
        grp = [livecases.make_order(st, mid, sel=rng.choice((701, 702, 703)), side=rng.choice(("BACK", "LAY")), price=3.0 + k_, size=2.0 + k_, persistence="LAPSE") for k_ in range(rng.randint(2, 4))]
        with m.transaction() as t_:
            for o in grp:
                t_.place_order(o)
        w.executor.run_all()
        w.snapshot()
        for o in grp:
            out.rule("roundtrip")
            mine = [b for b in ex.bets.values() if b["customerOrderRef"] == o.customer_order_ref]
            if len(mine) != 1 or str(o.bet_id) != mine[0]["betId"] or abs(mine[0]["priceSize"]["price"] - o.order_type.price) > 1e-9:
                out.v("reference-sent-for-wrong-order", {"package_orders": len(grp)}, ref=o.customer_order_ref, bets_with_ref=len(mine), order_bet=o.bet_id, order_price=o.order_type.price, bet_prices=[b["priceSize"]["price"] for b in mine])
        for j in range(rng.randint(2, 5)):
            o = livecases.make_order(st, mid, sel=rng.choice((701, 702, 703)), side=rng.choice(("BACK", "LAY")), price=3.0, size=4.0, persistence="PERSIST")
            m.place_order(o)
            w.executor.run_all()
            w.snapshot()
            own_bet = str(o.bet_id)
            m.replace_order(o, new_price=3.5)
            if rng.random() < 0.7 and w.executor.queue:
                w.exchange_process(0)  # the exchange acts on the replace now; the response is still on its way
                new_bet = [b for b in ex.bets.values() if b["customerOrderRef"] == o.customer_order_ref and b["betId"] != own_bet]
                if new_bet and rng.random() < 0.5:
                    ex.fill(new_bet[0]["betId"], 1.0)
                w.snapshot()
                out.rule("roundtrip")
                cur = o.responses.current_order
                if cur is not None and str(cur.bet_id) != own_bet:
                    out.v("update-of-replacement-bet-attributed-to-replaced-order", {}, order_bet=own_bet, attributed_bet=str(cur.bet_id), ref=o.customer_order_ref)
                if abs((o.size_matched or 0.0)) > 1e-9:
                    out.v("update-of-replacement-bet-attributed-to-replaced-order", {"field": "size_matched"}, order_bet=own_bet, size_matched=o.size_matched)
                # splitting the reference still leads to the order that produced it, and to nothing else
                if m.blotter._orders.get(o.id) is not o or sum(1 for x in m.blotter if x.customer_order_ref == o.customer_order_ref and x.trade is not o.trade) > 0:
                    out.v("reference-attributed-to-wrong-order-or-strategy", {"replaced": True, "when": "stream-before-response"}, ref=o.customer_order_ref, n_orders=len(m.blotter))
            w.executor.run_all()
            w.snapshot()
            out.rule("roundtrip")
            rep = [x for x in o.trade.orders if x is not o]
            if m.blotter._orders.get(o.id) is not o:
                out.v("reference-attributed-to-wrong-order-or-strategy", {"replaced": True, "when": "after-response"}, ref=o.customer_order_ref)
            # each bet of the exchange belongs to exactly one local order
            for b in ex.bets.values():
                if b["customerOrderRef"] == o.customer_order_ref and sum(1 for x in m.blotter if str(x.bet_id) == b["betId"]) > 1:
                    out.v("bet-attributed-to-several-orders", {"replaced": True}, bet=b["betId"], ref=o.customer_order_ref)
            for x in rep:
                b = ex.bets.get(str(x.bet_id))
                if b is None or b["customerOrderRef"] != o.customer_order_ref or m.blotter.get_order_bet_id(x.bet_id) is not x:
                    out.v("reference-attributed-to-wrong-order-or-strategy", {"replaced": True}, ref=o.customer_order_ref)
        out.d("replace_stream:%d" % case["i"])
    finally:
        livecases.finish(w)


def _config_sep(out):
    """The application changes config.order_sep at run time and creates orders without naming a separator: whatever the framework does
    with that setting (ignore it, honour it, refuse it), no order may come out with a reference the exchange would refuse or that does
    not split back."""
    from flumine import config as fconfig
    from flumine.order.trade import Trade
    from flumine.order.order import BetfairOrder, BetdaqOrder
    from flumine.order.ordertype import LimitOrder, BetdaqLimitOrder
    from .. import live

    st = _strategy("cfg")
    cands = [chr(c) for c in range(0x20, 0x100)] + ["é", "→", "", "--", "ab", "  ", "\n", None]
    saved = fconfig.order_sep
    made = []
    try:
        for c in cands:
            fconfig.order_sep = c
            makers = (
                lambda: Trade("1.23456", 12, 0, st).create_order("BACK", LimitOrder(2.0, 2.0)),
                lambda: BetfairOrder(Trade("1.23456", 12, 0, st), "LAY", LimitOrder(2.0, 2.0)),
                lambda: Trade("1.23456", 12, 0, st).create_betdaq_order("BACK", BetdaqLimitOrder(2.0, 2.0, 1, 0, 0)),
                lambda: BetdaqOrder(Trade("1.23456", 12, 0, st), "LAY", BetdaqLimitOrder(2.0, 2.0, 1, 0, 0)),
            )
            for k, mk in enumerate(makers):
                out.rule("config_separator")
                try:
                    o = mk()
                except ValueError:
                    continue  # refused when set: allowed
                ref = o.customer_order_ref
                if len(ref) > 32 or not set(ref) <= VALID:
                    out.v("reference-invalid-under-runtime-config-separator", {"maker": k}, ref=ref, config_sep=repr(c))
                elif k < 2:
                    made.append(o)
    finally:
        fconfig.order_sep = saved
    # every reference made above comes back from the exchange and is resolved by a second instance
    b = _strategy("cfg")
    wb = live.LiveWorld([b])
    bets = {}
    for o in made:
        bets[o.id] = wb.exchange._new_bet("1.23456", o.create_place_instruction(), None)["betId"]
    wb.snapshot()
    m = wb.market("1.23456")
    for o in made:
        out.rule("roundtrip")
        got = m.blotter._orders.get(o.id) if m is not None else None
        if got is None or got.trade.strategy is not b or got.bet_id != bets[o.id]:
            out.v("reference-not-resolved", {"runtime_config": True}, ref=o.customer_order_ref)
    wb.close()
    out.d("config_sep:%d" % len(made))


def _dup_names(case, out):
    """Two strategies were added under one name (flumine only warns) next to a strategy with a name of its own: references of the
    uniquely named strategy still come back to that strategy and to no other."""
    from .. import live

    rng = simgen.mk_rng(case["seed"], case["i"], 1919)
    base = rng.choice(("scalper", "S", "Strategy", "x" * 40))
    for order_ in (("%s", "%s_1", "%s"), ("%s_1", "%s", "%s"), ("%s", "%s", "%s_1"), ("%s", "%s_2", "%s", "%s")):
        names = [n % base for n in order_]
        b = [_strategy(n) for n in names]
        wb = live.LiveWorld(b)
        try:
            ex = wb.exchange
            uniq = [st for st in b if names.count(st.name) == 1]
            made = []
            for st in uniq:
                twin = _strategy(st.name)  # the instance that placed the bets before the restart (same name, same reference prefix)
                for j in range(3):
                    o = _mk_order(twin, side=rng.choice(("BACK", "LAY")))
                    bet = ex._new_bet("1.23456", o.create_place_instruction(), None)
                    made.append((st, o, bet["betId"]))
            wb.snapshot()
            m = wb.market("1.23456")
            for st, o, bet_id in made:
                out.rule("roundtrip")
                got = m.blotter._orders.get(o.id) if m is not None else None
                if got is None or got.trade.strategy is not st:
                    out.v("reference-attributed-to-wrong-order-or-strategy", {"duplicate_names_registered": True}, ref=o.customer_order_ref, strategy=st.name, got=None if got is None else got.trade.strategy.name, names=names)
        finally:
            wb.close()
    out.d("dup_names:%d" % case["i"])


def _roundtrip(case, out):
    """References produced by instance A come back from the exchange and are resolved by instance B."""
    from .. import live

    rng = simgen.mk_rng(case["seed"], case["i"], 19)
    names = rng.sample(NAMES, 4)
    unknown = "not-registered-" + str(case["i"])
    seps = rng.sample(sorted(VALID), 6)
    a = [_strategy(n) for n in names] + [_strategy(unknown)]
    b = [_strategy(n) for n in names]
    wb = live.LiveWorld(b)
    ex = wb.exchange
    made = []
    for st in a:
        for sep in seps:
            for j in range(rng.randint(8, 12)):
                o = _mk_order(st, sep=sep, side=rng.choice(("BACK", "LAY")))
                _check_ref(out, o.customer_order_ref)
                ins = o.create_place_instruction()
                bet = ex._new_bet("1.23456", ins, None)
                made.append((st.name, o.id, o.customer_order_ref, bet["betId"]))
    wb.snapshot()
    m = wb.market("1.23456")
    by_name = {s.name: s for s in b}
    for name, oid, ref, bet_id in made:
        out.rule("roundtrip")
        got = m.blotter._orders.get(oid) if m is not None else None
        if name == unknown:
            if got is not None:
                out.v("unknown-strategy-order-adopted", {}, ref=ref)
            continue
        if got is None:
            out.v("reference-not-resolved", {}, ref=ref, strategy=name)
            continue
        if got.trade.strategy is not by_name[name] or got.bet_id != bet_id or got.id != oid:
            out.v("reference-attributed-to-wrong-order-or-strategy", {}, ref=ref, strategy=name, got_strategy=got.trade.strategy.name, bet=bet_id, got_bet=got.bet_id)
    if m is not None and len(m.blotter) != sum(1 for x in made if x[0] != unknown):
        out.v("adoption-count-differs", {}, blotter=len(m.blotter), expected=sum(1 for x in made if x[0] != unknown))
    # a second, identical snapshot adopts nothing new
    n1 = len(m.blotter) if m is not None else 0
    first = dict(m.blotter._orders) if m is not None else {}
    live1 = len(m.blotter._live_orders) if m is not None else 0
    wb.snapshot()
    if m is not None and (len(m.blotter) != n1 or len(m.blotter._live_orders) != live1 or any(m.blotter._orders.get(k) is not v for k, v in first.items())):
        out.v("adopted-twice", {}, before=n1, after=len(m.blotter), live_before=live1, live_after=len(m.blotter._live_orders))
    # a strategy registered at run time, after references have already been resolved once: its references resolve too
    late_name = "late-%d" % case["i"]
    la, lb = _strategy(late_name), _strategy(late_name)
    late = []
    for sep in seps[:3]:
        for j in range(3):
            o = _mk_order(la, sep=sep, side=rng.choice(("BACK", "LAY")))
            bet = ex._new_bet("1.23456", o.create_place_instruction(), None)
            late.append((o, bet["betId"]))
    if case["i"] % 2 == 0:
        wb.snapshot()  # the references are seen (and cannot be resolved) before their strategy is registered
    wb.add_strategy(lb)
    wb.snapshot()
    for o, bet_id in late:
        out.rule("roundtrip")
        got = m.blotter._orders.get(o.id) if m is not None else None
        if got is None:
            out.v("reference-not-resolved", {"late_strategy": True}, ref=o.customer_order_ref, strategy=late_name)
        elif got.trade.strategy is not lb or got.bet_id != bet_id:
            out.v("reference-attributed-to-wrong-order-or-strategy", {"late_strategy": True}, ref=o.customer_order_ref, got_strategy=got.trade.strategy.name)
    # the same references come back once more in the settlement (cleared orders) response: each settles the order that produced it
    from betfairlightweight.resources.bettingresources import ClearedOrders
    from flumine.events.events import ClearedOrdersEvent

    rows = [
        {"betId": bet_id, "customerOrderRef": ref, "customerStrategyRef": "x", "marketId": "1.23456", "selectionId": 12, "handicap": 0.0, "profit": float(k % 7), "sizeSettled": 2.0, "priceMatched": 2.0, "eventId": "1", "eventTypeId": "7", "betOutcome": "WON", "side": "BACK", "orderType": "LIMIT", "persistenceType": "LAPSE", "priceRequested": 2.0, "betCount": 1, "priceReduced": False, "placedDate": "2022-01-01T12:00:00.000Z", "settledDate": "2022-01-01T13:00:00.000Z", "lastMatchedDate": "2022-01-01T12:30:00.000Z"}
        for k, (name, oid, ref, bet_id) in enumerate(made)
    ]
    rng.shuffle(rows)
    if m is not None:
        cleared = ClearedOrders(moreAvailable=False, clearedOrders=rows)
        cleared.market_id = "1.23456"
        wb.fw._process_cleared_orders(ClearedOrdersEvent(cleared))
        for name, oid, ref, bet_id in made:
            if name == unknown:
                continue
            out.rule("roundtrip_cleared")
            got = m.blotter._orders.get(oid)
            co = getattr(got, "cleared_order", None) if got is not None else None
            if co is None or str(co.bet_id) != str(bet_id):
                out.v("settlement-reference-not-resolved-to-its-order", {"sep_default": ref[13] == "-"}, ref=ref, strategy=name, got_bet=None if co is None else co.bet_id, bet=bet_id)
    out.d("roundtrip:%d:%d" % (case["i"], len(made)))
    wb.close()
