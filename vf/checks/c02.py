"""C02 - refused requests change nothing; accepted requests are sent exactly once."""
from .. import oracles as O
from .. import simrun, simgen, livecases, live
from .. import marketgen as G
from .. import ladder as L
from . import _sim

PROPERTY = "C02"
LEVEL = "exploration"
DISTINCT_RULE = (
    "request sequences (0..3x the per-call limits, several market versions, explicit execute() calls, every control made to refuse, custom control, force) on simulated, "
    "Betfair (live double) and Betdaq clients; distinct = (kind, order status at request, refusal reason, force) cells of refused requests, (kind, force) of accepted ones, "
    "(kind, size class) of packages"
)
RULES = ["refused", "accepted", "package", "group-order", "package-version", "tx-end", "own-account", "control-refusal"]
MINIMA = {"quick": {"rule_refused": 8000, "rule_accepted": 20000, "rule_package": 3000, "rule_tx-end": 5000}, "thorough": {"rule_refused": 200000}}
ASSUMPTIONS = [
    "snapshot = order fields, trade status/log, blotter membership and views, runner context, transaction pending lists (vf.simrun.world_view)",
    "permitted effect of refusing a NEW order: status/log/violation message/client of that order only",
]
WATCHDOG = {"quick": 900, "thorough": 3600}
SIZES = (0, 1, 2, 59, 60, 61, 130, 199, 200, 201, 450)


def plan(tier, seed):
    cases = []
    n = 1500 if tier == "quick" else 15000
    for i in range(n):
        cases.append({"mode": ("simbatch", "simctl", "live", "simctl", "betdaq", "simbatch", "live")[i % 7], "seed": seed, "idx": i})
    # several markets of one event processed together (requests in flight on one market while a sibling updates or closes)
    cases += [{"mode": "simevent", "seed": seed, "idx": i} for i in range(250 if tier == "quick" else 5000)]
    # several Betfair accounts in one framework: every accepted request reaches the exchange once, through the account of its order
    cases += [{"mode": "accounts", "seed": seed, "idx": i} for i in range(150 if tier == "quick" else 3000)]
    # directed case for the listed finding C02-reoffer-leaves-violation-msg (a live order offered again and refused by validate_order)
    cases.insert(0, {"mode": "simctl", "seed": seed, "idx": 1, "directed_reoffer": True})
    return cases


# -------- simulated: big batches -------------------------------------------------------------------


def _static(rng, suspended=()):
    mid = "1.2%08d" % rng.randint(0, 99999)
    mf = G.MarketFile(mid, [(801, 0, 30.0), (802, 0, 30.0), (803, 0, 40.0)], bsp=True, persistence=True, version=7000)
    t = G.T0
    for i in range(14):
        t += 1000
        rc = {k: {"atb": {2.0: 500.0, 1.9: 50.0}, "atl": {2.2: 500.0, 2.4: 50.0}} for k in mf.keys}
        if i in suspended:
            mf.emit(t, md_changes={"status": "SUSPENDED", "version": mf.md["version"] + 1})
        elif mf.md["status"] != "OPEN":
            mf.emit(t, md_changes={"status": "OPEN"}, rc=rc)
        else:
            mf.emit(t, rc=rc if i == 0 else {mf.keys[i % 3]: {"trd": {2.0: 10.0 * (i + 1)}}})
    t += 1000
    mf.emit(t, md_changes={"status": "SUSPENDED"})
    t += 1000
    mf.emit(t, md_changes={"status": "CLOSED"}, runner_md={mf.keys[0]: {"status": "WINNER"}, mf.keys[1]: {"status": "LOSER"}, mf.keys[2]: {"status": "LOSER"}})
    return mf


def _place(rng, mid, ref, invalid=0.05, force=0.0, tight=False):
    a = {"m": mid, "op": "place", "ref": ref, "sel": [rng.choice((801, 802, 803)), 0], "side": rng.choice(("BACK", "LAY")), "price": rng.choice((1.5, 2.1, 3.0, 5.0)) if not tight else 3.0, "size": rng.choice((0.01, 0.5, 2.0)), "persistence": rng.choice(("LAPSE", "PERSIST"))}
    r = rng.random()
    if r < invalid:
        bad = rng.choice(("size0", "price", "neg", "3dp"))
        if bad == "size0":
            a["size"] = 0
        elif bad == "price":
            a["price"] = 2.01
        elif bad == "neg":
            a["size"] = -1.0
        else:
            a["size"] = 1.005
    mv = rng.random()
    if mv < 0.25:
        a["mv"] = "cur"
    elif mv < 0.4:
        a["mv"] = "stale"
    if rng.random() < force and r >= invalid:
        a["force"] = True  # (never on a deliberately malformed order: force skips validation by design)
    return a


def build_simbatch(desc):
    rng = simgen.mk_rng(desc["seed"], desc["idx"], 2)
    mf = _static(rng, suspended=(8,) if rng.random() < 0.5 else ())
    mid = mf.market_id
    n = rng.choice(SIZES)
    items = [_place(rng, mid, "p%d" % i, force=0.05) for i in range(n)]
    ex_after = sorted(rng.sample(range(n), min(n, rng.randint(0, 3)))) if n else []
    actions = [{"m": mid, "at": 1, "op": "batch", "items": items, "execute_after": ex_after}]
    if n and rng.random() < 0.15:
        # the strategy raises inside the `with market.transaction()` block: what was accepted must still be sent once
        actions[0]["raise_after"] = rng.randrange(n)
    # later: batches of cancels / updates / replaces on what is live (and on what is not)
    for at in (4, 6, 9, 11):
        k = rng.choice((0, 1, 30, 61, 130))
        sub = []
        for j in range(k):
            ref = "p%d" % rng.randrange(max(1, n))
            op = rng.choice(("cancel", "cancel", "update", "replace"))
            x = {"m": mid, "op": op, "ref": ref, "follow": rng.random() < 0.3}
            if op == "cancel":
                x["reduction"] = rng.choice((None, None, 0.01, 1000.0))
            elif op == "update":
                x["persistence"] = rng.choice(("LAPSE", "PERSIST", "MARKET_ON_CLOSE"))
            else:
                x["price"] = rng.choice((1.5, 2.1, 3.0, 5.0, 2.01))
                x["mv"] = rng.choice((None, None, "cur"))
            if rng.random() < 0.05:
                x["force"] = True
            sub.append(x)
        if sub:
            actions.append({"m": mid, "at": at, "op": "batch", "items": sub, "execute_after": sorted(rng.sample(range(len(sub)), min(len(sub), rng.randint(0, 2))))})
        if rng.random() < 0.3:
            actions.append(dict(_place(rng, mid, "q%d" % at), at=at))
    # duplicate placement of an order that is already in the blotter (also forced: force skips the controls, nothing else)
    valid = []
    if n:
        valid = [i for i, it in enumerate(items) if it["size"] in (0.01, 0.5, 2.0) and it["price"] != 2.01]
    if n and valid and rng.random() < 0.6:
        actions.append({"m": mid, "at": 5, "op": "place", "ref": "p%d" % rng.choice(valid), "reuse": True, "sel": [801, 0], "side": "BACK", "price": 3.0, "size": 2.0, "force": rng.random() < 0.5})
    case = {"seed": desc["seed"], "idx": desc["idx"], "markets": [{"id": mid, "text": mf.text()}], "clients": [{"min_bet_validation": False}], "strategies": [{"name": "S0", "actions": actions}]}
    return case, {mid: G.read_lines(mf.lines)}


def build_simctl(desc):
    """every control made to refuse, plus a custom control raising ControlError"""
    rng = simgen.mk_rng(desc["seed"], desc["idx"], 22)
    mf = _static(rng, suspended=(3, 7))
    mid = mf.market_id
    actions = []
    n = rng.randint(6, 30)
    for i in range(n):
        actions.append(dict(_place(rng, mid, "p%d" % i, invalid=0.15, force=0.1, tight=True), at=rng.randrange(0, 13)))
    for i in range(rng.randint(5, 40)):
        op = rng.choice(("cancel", "update", "replace"))
        x = {"m": mid, "at": rng.randrange(1, 14), "op": op, "ref": "p%d" % rng.randrange(n), "follow": rng.random() < 0.3}
        if op == "cancel":
            x["reduction"] = rng.choice((None, 0.01, 1000.0))
        elif op == "update":
            x["persistence"] = rng.choice(("LAPSE", "PERSIST"))
        else:
            x["price"] = rng.choice((1.5, 2.1, 5.0, 40.0))
        if rng.random() < 0.1:
            x["force"] = True
        actions.append(x)
    # the same order object offered again later (a retry / double submit), not forced: whatever refuses it changes nothing
    for a in list(actions):
        if a["op"] == "place" and rng.random() < 0.3:
            actions.append(dict(a, at=min(13, a["at"] + rng.randint(0, 4)), reuse=True, force=False))
    actions.sort(key=lambda a: a["at"])
    which = rng.choice(("exposure", "trades", "txlimit", "custom", "none"))
    st = {"name": "S0", "actions": actions}
    client = {"min_bet_validation": rng.random() < 0.5}
    if which == "exposure":
        st["limits"] = {"order": rng.choice((1.0, 5.0)), "selection": rng.choice((1.5, 6.0)), "market": rng.choice((None, 4.0))}
    elif which == "trades":
        st["max_live_trade_count"] = 1
        st["max_trade_count"] = rng.choice((2, 1e6))
        st["multi_order_trades"] = False
    elif which == "txlimit":
        client["transaction_limit"] = rng.choice((0, 3, 10))
    if desc.get("directed_reoffer"):
        a0 = {"m": mid, "at": 0, "op": "place", "ref": "d0", "sel": [801, 0], "side": "BACK", "price": 3.0, "size": 2.0, "persistence": "PERSIST"}
        st = {"name": "S0", "actions": [a0, dict(a0, at=2, reuse=True, force=False)], "max_live_trade_count": 1, "multi_order_trades": False}
        client, which = {}, "trades"
    case = {"seed": desc["seed"], "idx": desc["idx"], "markets": [{"id": mid, "text": mf.text()}], "clients": [client], "strategies": [st], "custom_control": which == "custom"}
    return case, {mid: G.read_lines(mf.lines)}


def _custom_control(fw, tr):
    from flumine.controls import BaseControl

    class Picky(BaseControl):
        NAME = "PICKY"

        def _validate(self, order, package_type):
            if (int(order.id[-3:]) + package_type.value.__len__()) % 3 == 0:
                self._on_error(order, "picky says no")

    fw.add_trading_control(Picky)


def run_sim(desc, out, builder):
    case, snaps = builder(desc)
    tr = simrun.run_case(case, pre_run=_custom_control if case.get("custom_control") else None)
    O.abort_violation(tr, out)
    O.c02_requests(tr, out, "Betfair", "Simulated")
    return case, tr


# -------- live double (Betfair) and Betdaq -----------------------------------------------------------


def run_live(desc, out):
    rng = simgen.mk_rng(desc["seed"], desc["idx"], 23)
    from ..simrun import ScriptedStrategy

    tr = simrun.Trace()
    simrun.attach(tr)
    which = rng.choice(("exposure", "trades", "txlimit", "execution", "none", "none"))
    kw = dict(max_order_exposure=None, max_selection_exposure=None, max_live_trade_count=1e6, multi_order_trades=True)
    if which == "exposure":
        kw.update(max_order_exposure=rng.choice((1.0, 5.0)), max_selection_exposure=rng.choice((1.5, 6.0)), max_market_exposure=rng.choice((None, 4.0)))
    elif which == "trades":
        kw.update(max_live_trade_count=1, multi_order_trades=False)
    st = ScriptedStrategy(tr, {"actions": []}, market_filter={}, name="L0", **kw)
    w = live.LiveWorld([st], transaction_limit=rng.choice((0, 5)) if which == "txlimit" else None, async_place=rng.random() < 0.3)
    tr.framework = w.fw
    try:
        if which == "execution":
            from flumine.controls.tradingcontrols import ExecutionValidation
            from flumine import config as fconfig

            w.fw.add_trading_control(ExecutionValidation)
        w.clients[0].min_bet_validation = False
        sus = (4,) if rng.random() < 0.5 else ()
        mid = w.add_market_file(livecases.static_market(suspended_at=sus))
        w.next_book(mid)
        m = w.market(mid)
        n = rng.choice((0, 1, 2, 61, 201))
        refs = []
        for step in range(8):
            k = rng.random()
            if step == 0 or k < 0.25:
                cnt = n if step == 0 else rng.randint(1, 4)
                items = []
                for i in range(cnt):
                    a = _place(rng, mid, "r%d_%d" % (step, i), invalid=0.1, force=0.05)
                    a["sel"] = [rng.choice((701, 702, 703)), 0]
                    items.append(a)
                    refs.append(a["ref"])
                st._do(m, {"m": mid, "op": "batch", "items": items, "execute_after": sorted(rng.sample(range(cnt), min(cnt, rng.randint(0, 2)))) if cnt else []})
            elif k < 0.6 and refs:
                sub = []
                for j in range(rng.choice((1, 3, 61))):
                    op = rng.choice(("cancel", "update", "replace"))
                    x = {"m": mid, "op": op, "ref": rng.choice(refs), "follow": rng.random() < 0.3}
                    if op == "cancel":
                        x["reduction"] = rng.choice((None, 0.01, 1000.0))
                    elif op == "update":
                        x["persistence"] = rng.choice(("LAPSE", "PERSIST"))
                    else:
                        x["price"] = rng.choice((1.5, 2.1, 5.0, 2.01))
                    if rng.random() < 0.05:
                        x["force"] = True
                    sub.append(x)
                if rng.random() < 0.5:
                    st._do(m, {"m": mid, "op": "batch", "items": sub, "execute_after": []})
                else:
                    for x in sub[:4]:
                        st._do(m, x)
            elif k < 0.8:
                if rng.random() < 0.7:
                    w.executor.run_all()
                w.snapshot()
            else:
                w.next_book(mid)
                m = w.market(mid)
            if which == "execution" and step == 3:
                # the order stream is down and earlier attempts failed: further cancels must be refused
                from flumine import config as fconfig

                fconfig.execution_retry_attempts = 0
        w.executor.run_all()
        O.c02_requests(tr, out, "Betfair", "Betfair")
        out.c("live_which_" + which)
    finally:
        from flumine import config as fconfig

        fconfig.execution_retry_attempts = 10
        livecases.finish(w)
    return tr


def run_betdaq(desc, out):
    rng = simgen.mk_rng(desc["seed"], desc["idx"], 24)
    from flumine import Flumine, clients, config as fconfig
    from flumine.order.trade import Trade
    from flumine.order.ordertype import BetdaqLimitOrder
    from flumine.events.events import MarketBookEvent
    from flumine.exceptions import FlumineException

    fconfig.simulated = False
    tr = simrun.Trace()
    simrun.attach(tr)
    api = live.FakeAPI(None, "bdq")
    client = clients.BetdaqClient(api, order_stream=False, transaction_limit=None)
    fw = Flumine(client=client)
    tr.framework = fw
    ex = live.ControlledExecutor()
    fw.betdaq_execution._thread_pool = ex
    st = livecases.make_strategy("B0", max_order_exposure=rng.choice((None, 5.0)), max_selection_exposure=rng.choice((None, 12.0)))

    class _S:
        stream_id = 7

    st.streams = [_S()]
    fw.strategies(st, fw.clients, fw)
    try:
        w = live.LiveWorld.__new__(live.LiveWorld)
        w.fw, w.stream_id, w.gens, w.books = fw, 7, {}, {}
        mid = w.add_market_file(livecases.static_market())
        w.next_book(mid)
        m = fw.markets.markets[mid]
        orders = []
        for step in range(5):
            cnt = rng.choice((0, 1, 9, 10, 11, 35))
            with m.transaction() as t:
                for i in range(cnt):
                    price = rng.choice((2.0, 3.05, 4.1, 2.999))
                    size = rng.choice((1.0, 2.5, 0, 1.005))
                    o = Trade(mid, rng.choice((701, 702)), 0, st).create_betdaq_order(rng.choice(("BACK", "LAY")), BetdaqLimitOrder(price, size, 1, 0, 0))
                    try:
                        if t.place_order(o, force=rng.random() < 0.05):
                            orders.append(o)
                    except FlumineException:
                        pass
                    if rng.random() < 0.1:
                        t.execute()
            # acknowledge some so that cancels / updates become possible
            for o in orders:
                if o.status is not None and o.status.name == "PENDING" and rng.random() < 0.7:
                    o.bet_id = 9000000 + len(tr.okeys) + orders.index(o)
                    with o.trade:
                        o.executable()
            with m.transaction() as t:
                for o in rng.sample(orders, min(len(orders), rng.choice((0, 3, 11, 55)))):
                    try:
                        if rng.random() < 0.5:
                            t.cancel_order(o, size_reduction=rng.choice((None, None, 1.0)))
                        else:
                            t.update_order(o, size_delta=rng.choice((0.0, 1.0)), new_price=rng.choice((None, 3.0)))
                    except FlumineException:
                        pass
        O.c02_requests(tr, out, "Betdaq", "Betdaq")
    finally:
        simrun.detach()
        for e in (fw.simulated_execution, fw.betfair_execution):
            e._thread_pool.shutdown(wait=False)
    return tr


def run_simevent(desc, out):
    from . import _sim

    case, snaps = _sim.build({"seed": desc["seed"], "idx": desc["idx"], "profile": "event", "usage": {"p_batch": 0.6}, "overrides": {"script_params": {"n_orders": (2, 7), "p_cancel": 0.4, "p_replace": 0.2, "p_update": 0.1}}})
    tr = simrun.run_case(case)
    O.abort_violation(tr, out)
    O.c02_requests(tr, out, "Betfair", "Simulated")
    for p in O.unexecuted_packages(tr, case):
        out.v("accepted-request-never-reached-the-exchange", {"kind": p["kind"], "exec": "Simulated", "event_processing": True}, package={k: p[k] for k in ("pid", "kind", "orders", "market", "tick")})
    out.rule("package-executed", len(tr.packages))
    out.d("simevent:%d:%d" % (len(case["markets"]), min(len(tr.packages), 12)))
    return tr


def run(desc):
    out = O.Out(PROPERTY)
    mode = desc["mode"]
    if mode == "simevent":
        run_simevent(desc, out)
        return out.result()
    if mode == "accounts":
        from .. import livecases

        res = livecases.accounts_run(desc["seed"], desc["idx"])
        out.rule("own-account", res["n_calls"])
        for e in res["wrong_account"][:3]:
            out.v("request-sent-through-another-clients-account", {"call": e["call"], "clients": res["n_clients"]}, detail=e)
        out.d("accounts:%d:%d" % (res["n_clients"], min(res["n_calls"], 12)))
        return out.result()
    sample = None
    if mode == "simbatch":
        case, tr = run_sim(desc, out, build_simbatch)
        sample = {"mode": mode, "packages": [(p["kind"], len(p["orders"]), p["mv"]) for p in tr.packages][:12]} if desc["idx"] < 7 else None
    elif mode == "simctl":
        case, tr = run_sim(desc, out, build_simctl)
    elif mode == "live":
        run_live(desc, out)
    else:
        run_betdaq(desc, out)
    return out.result(sample=sample)
