"""C18 - the transaction-limit control counts exactly and blocks when exceeded."""
import os
import sys
import time
import threading
import collections
import datetime as _dt

from .. import oracles as O
from .. import simrun, simgen, livecases, live
from .. import marketgen as G
from . import _sim

PROPERTY = "C18"
LEVEL = "exploration"
DISTINCT_RULE = (
    "package sequences with failure patterns spread over simulated time across hour and day boundaries (also backwards in time between sequential markets), 1-3 clients "
    "with different limits, simulation and live double; a real ThreadPoolExecutor stress with bytecode-level yields inside add_transaction; distinct = (client limit class, "
    "hour-bucket changes, refused?, kind) cells at the control + thread rounds"
)
RULES = ["gate", "gated", "totals", "threaded-round", "own-client"]
MINIMA = {"quick": {"rule_gate": 8000, "rule_gated": 5000, "rule_totals": 800, "rule_threaded-round": 40}, "thorough": {"rule_gate": 300000, "rule_threaded-round": 1000}}
ASSUMPTIONS = [
    "counting model B6 fed from the execution boundary (simulated responses / the double's call log), never from flumine's counters",
    "a request 'made in a new clock hour' is one that reaches the client control (an earlier trading control may refuse first)",
    "yields are injected only inside add_transaction (handler-completion granularity)",
]
WATCHDOG = {"quick": 900, "thorough": 3600}


def plan(tier, seed):
    n = 3000 if tier == "quick" else 40000
    cases = [{"mode": ("sim", "sim", "live")[i % 3], "seed": seed, "idx": i} for i in range(n)]
    nt = 24 if tier == "quick" else 300
    cases += [{"mode": "threads", "seed": seed, "idx": i, "rounds": 5} for i in range(nt)]
    return cases


def bucket(dt):
    return (dt.year, dt.month, dt.day, dt.hour)


def judge_gate(tr, out, shadow_events, limits):
    """shadow_events: list of (seq, client, count) from the execution boundary; tr.mtc: calls of the control."""
    per_client = collections.defaultdict(list)
    for e in shadow_events:
        per_client[e[1]].append(e)
    for client in {c["client"] for c in tr.mtc} | set(per_client):
        calls = [c for c in tr.mtc if c["client"] == client]
        evs = sorted(per_client.get(client, []))
        restart_bucket = None
        restart_seq = 0
        limit = limits.get(client)
        for c in calls:
            b = bucket(c["now"] + _dt.timedelta(hours=1))
            changed = restart_bucket is None or b != restart_bucket
            if changed:
                restart_bucket = b
                restart_seq = c["seq"]
            hourly = sum(n for s, _, n in evs if restart_seq < s < c["seq"])
            total = sum(n for s, _, n in evs if s < c["seq"])
            out.rule("gate")
            exp_refuse = limit is not None and hourly > limit
            tags = {"limit": "none" if limit is None else "set", "hour_change": changed, "kind": c["kind"]}
            out.d("c18:%s:%s:%s:%s" % (tags["limit"], changed, c["raised"], c["kind"]))
            if c["raised"] != exp_refuse:
                out.v("gate-decision-wrong", dict(tags, refused=c["raised"]), call=c, shadow_hourly=hourly, limit=limit)
            if c["hourly_after"] != hourly:
                out.v("hourly-count-differs", dict(tags, direction="over" if c["hourly_after"] > hourly else "under"), call=c, shadow_hourly=hourly)
            if c["total_after"] != total:
                out.v("total-count-differs", dict(tags, direction="over" if c["total_after"] > total else "under"), call=c, shadow_total=total)


def judge_gated(tr, out):
    """Every accepted, non-forced request of a strategy went through the client's transaction-limit control (once per request):
    a request that the control never saw cannot have been refused by it."""
    seqs = [r["seq"] for r in tr.requests] + [float("inf")]
    for r in tr.requests:
        # an order that was refused (limit reached) and is offered again is judged by the control again: nothing about the order's
        # own state stands in the way of placing a never-sent order
        if r["kind"] == "PLACE" and r.get("exc") == "OrderUpdateError":
            out.v("placement-refused-because-of-order-state", {"status": (r.get("before") or {}).get("status")}, request={k: r[k] for k in ("seq", "kind", "o")}, msg=r.get("exc_msg"))
    for i, r in enumerate(tr.requests):
        if not r.get("result") or r["force"] or not r["execute"]:
            continue
        out.rule("gated")
        seen = [c for c in tr.mtc if c["o"] == r["o"] and c["kind"] == r["kind"] and r["seq"] < c["seq"] < seqs[i + 1]]
        if len(seen) != 1:
            same_tx = sum(1 for q in tr.requests[:i] if q["tx"] == r["tx"])
            out.v("accepted-request-not-gated-once", {"kind": r["kind"], "seen": min(len(seen), 2), "first_of_batch": same_tx == 0}, request={k: r[k] for k in ("seq", "kind", "o", "tx")})


def run_sim(desc, out):
    rng = simgen.mk_rng(desc["seed"], desc["idx"], 18)
    nm = rng.choice((1, 2, 3))
    mp = dict(_sim.HOSTILE_MARKET, spacing_ms=(500, 2000, 60_000, 900_000, 1_800_000, 2_400_000), n_pre=(6, 14), p_removal=0.1)
    case, snaps = simgen.gen_case(desc["seed"], desc["idx"], market_params=mp, script_params={"n_orders": (4, 14), "p_cancel": 0.4, "p_update": 0.2, "p_replace": 0.3, "p_force": 0.1, "p_any_step": 0.2}, n_markets=(nm, nm), salt=18)
    # sequential markets: shuffle their start times so that the clock also goes backwards between markets
    ncl = rng.choice((1, 2, 3))
    case["clients"] = [{"username": "sim%d" % i, "transaction_limit": rng.choice((None, 0, 2, 5, 12))} for i in range(ncl)]
    for s in case["strategies"]:
        for a in s["actions"]:
            if a["op"] == "place":
                a["client"] = rng.randrange(ncl)
    if desc["idx"] % 2 == 0:
        # orders refused once (limit reached) are offered again later, e.g. in the next hour
        simgen.usage_variants(case, snaps, simgen.mk_rng(desc["seed"], desc["idx"], 1818), p_reoffer=0.5, p_force_reoffer=0.0)
    tr = simrun.run_case(case)
    O.abort_violation(tr, out)
    client_of = {p["pid"]: p["client"] for p in tr.packages}
    # clients do not affect each other: a request concerning an order is sent - and counted - under the client the strategy chose for
    # that order (a replacement order belongs to the client of the order it replaces)
    for p_ in tr.packages:
        for o_ in p_["orders"]:
            oo = tr.orders.get(o_)
            ic_ = getattr(oo, "_vf_expected_client", None) if oo is not None else None
            if ic_ is not None:
                out.rule("own-client")
                if ic_.username != p_["client"]:
                    out.v("request-charged-to-another-client", {"kind": p_["kind"], "exec": "Simulated"}, order=o_, package_client=p_["client"], order_client=ic_.username)
    shadow = []
    for e in tr.effects:
        lo, hi = e["seq"], e.get("end_seq", 10**12)
        fails = sum(1 for r in tr.sim_responses if lo < r["seq"] < hi and r["status"] == "FAILURE" and r["kind"] in ("CANCEL", "UPDATE"))
        live_pre = [p for p in e["pre"] if p != "VIOLATION"]
        if e["kind"] == "PLACE":
            n = len(live_pre)
        elif e["kind"] == "REPLACE":
            n = sum(1 for p in live_pre if p != "EXECUTION_COMPLETE") + fails
        else:
            n = fails
        if n and "exc" not in e:
            shadow.append((hi, client_of.get(e["pid"]), n))
    limits = {c["username"]: c["transaction_limit"] for c in case["clients"]}
    judge_gate(tr, out, shadow, limits)
    judge_gated(tr, out)
    fw = tr.framework
    for cl in fw.clients:
        out.rule("totals")
        exp = sum(n for _, c, n in shadow if c == cl.username)
        if cl.transaction_count_total != exp:
            out.v("total-count-differs", {"at": "end", "direction": "over" if cl.transaction_count_total > exp else "under"}, client=cl.username, got=cl.transaction_count_total, expected=exp)


def run_live(desc, out):
    rng = simgen.mk_rng(desc["seed"], desc["idx"], 181)
    from flumine.simulation.utils import SimulatedDateTime
    from flumine.exceptions import FlumineException

    ncl = rng.choice((1, 2, 3))
    lims = [rng.choice((None, 0, 3, 8)) for _ in range(ncl)]
    st = livecases.make_strategy()
    sdt = SimulatedDateTime()
    sdt.__enter__()
    clock = [_dt.datetime(2022, 4, 19, rng.choice((10, 22, 23)), rng.choice((5, 40, 58)), 0)]
    sdt(clock[0])
    tr, w = livecases.new_world([st], n_clients=ncl, transaction_limit=lims)
    try:
        mid = w.add_market_file(livecases.static_market())
        w.next_book(mid)
        m = w.market(mid)
        ex = w.exchange
        fails = {"CANCEL": [{"status": "SUCCESS"}, {"status": "FAILURE", "error": "BET_ACTION_ERROR"}, {"status": "TIMEOUT"}]}

        def fault_plan(rec):
            r = simgen.mk_rng(desc["seed"], desc["idx"] * 1000 + rec["n"], 5)
            if r.random() < 0.08:
                return {"raise_": live.API_ERRORS["APIError"]}
            if rec["kind"] != "REPLACE" and r.random() < 0.07:
                # the whole request fails at the exchange (report-level error code): every instruction is reported failed
                return {"outcomes": [{"status": "FAILURE", "error": "ERROR_IN_ORDER" if rec["kind"] == "PLACE" else "BET_ACTION_ERROR"} for _ in rec["instructions"]], "report_error": r.choice(("ERROR_IN_MATCHER", "SERVICE_UNAVAILABLE", "BET_ACTION_ERROR"))}
            if rec["kind"] == "PLACE":
                return {"outcomes": [r.choice(({"status": "SUCCESS"}, {"status": "SUCCESS"}, {"status": "FAILURE", "error": "ERROR_IN_ORDER"}, {"status": "TIMEOUT", "exists": True})) for _ in rec["instructions"]]}
            return {"outcomes": [r.choice(({"status": "SUCCESS"}, {"status": "FAILURE", "error": "BET_ACTION_ERROR"}, {"status": "TIMEOUT"})) for _ in rec["instructions"]]}

        ex.plan = fault_plan
        orders = []
        refused = []
        shadow_upto = [0]
        shadow = []

        def absorb():
            for c in ex.calls[shadow_upto[0] :]:
                if not c["answered"] or c.get("memo_hit"):
                    continue
                cname = c.get("_client")
                if c["kind"] == "PLACE":
                    n = len(c["instructions"])
                elif c["kind"] == "REPLACE":
                    n = len(c["instructions"]) + sum(1 for r in c["reports"] if r["cancelInstructionReport"]["status"] == "FAILURE")
                else:
                    n = sum(1 for r in c["reports"] if r["status"] == "FAILURE")
                if n:
                    shadow.append((tr.nseq(), cname, n))
            shadow_upto[0] = len(ex.calls)

        # tag calls with the client whose package it was: package id -> client via the B3 log
        def tag_calls():
            cl = {p["pid"].replace("-", ""): p["client"] for p in tr.packages}
            for c in ex.calls:
                c["_client"] = cl.get(c["customer_ref"])

        for step in range(rng.randint(10, 30)):
            clock[0] += _dt.timedelta(seconds=rng.choice((1, 30, 600, 1500, 3599, 3600, 4000, 86400, 86400, 90000, 172800)) if rng.random() < 0.5 else 1)
            sdt(clock[0])
            k = rng.random()
            try:
                if k < 0.45 or not orders:
                    ci = rng.randrange(ncl)
                    with m.transaction(client=w.clients[ci]) as t:
                        for _ in range(rng.choice((1, 1, 2, 5))):
                            o = livecases.make_order(st, mid, sel=rng.choice((701, 702, 703)), side=rng.choice(("BACK", "LAY")), price=3.0, size=2.0)
                            if t.place_order(o, force=rng.random() < 0.1):
                                orders.append(o)
                            else:
                                refused.append(o)
                        if refused and rng.random() < 0.4:
                            o = refused.pop(rng.randrange(len(refused)))  # offered again (same client)
                            if t.place_order(o):
                                orders.append(o)
                            else:
                                refused.append(o)
                elif k < 0.8:
                    o = rng.choice(orders)
                    op = rng.choice(("cancel", "update", "replace"))
                    if op == "cancel":
                        m.cancel_order(o, force=rng.random() < 0.1)
                    elif op == "update":
                        m.update_order(o, new_persistence_type="LAPSE" if o.order_type.persistence_type != "LAPSE" else "PERSIST")
                    else:
                        m.replace_order(o, new_price=o.order_type.price + 1)
                else:
                    w.snapshot()
            except FlumineException:
                pass
            if rng.random() < 0.8:
                w.executor.run_all()
                tag_calls()
                absorb()
        w.executor.run_all()
        tag_calls()
        absorb()
        limits = {c.username: lims[i] for i, c in enumerate(w.clients)}
        judge_gate(tr, out, shadow, limits)
        judge_gated(tr, out)
        for cl in w.clients:
            out.rule("totals")
            exp = sum(n for _, c, n in shadow if c == cl.username)
            if cl.transaction_count_total != exp:
                out.v("total-count-differs", {"at": "end", "direction": "over" if cl.transaction_count_total > exp else "under", "exec": "Betfair"}, client=cl.username, got=cl.transaction_count_total, expected=exp)
    finally:
        livecases.finish(w)
        sdt.__exit__(None, None, None)


def run_threads(desc, out):
    """N executions complete on a real ThreadPoolExecutor; a sys.monitoring INSTRUCTION callback restricted to
    MaxTransactionCount.add_transaction yields between its bytecodes."""
    from concurrent.futures import ThreadPoolExecutor
    from flumine.controls.clientcontrols import MaxTransactionCount

    mon = sys.monitoring
    TOOL = 3
    code = None
    for hooked in simrun._HOOKS:
        pass
    st = livecases.make_strategy()
    tr, w = livecases.new_world([st], n_clients=2)
    # the original function object (our recording wrapper calls it)
    orig = next((o for c, n, o in simrun._HOOKS if c is MaxTransactionCount and n == "add_transaction"), None)
    code = orig.__code__
    yields = [0]

    def on_instruction(code_, offset):
        yields[0] += 1
        if yields[0] % 3 == 0:
            time.sleep(0)

    try:
        mon.use_tool_id(TOOL, "vf-c18")
        mon.register_callback(TOOL, mon.events.INSTRUCTION, on_instruction)
        mon.set_local_events(TOOL, code, mon.events.INSTRUCTION)
        mid = w.add_market_file(livecases.static_market())
        w.next_book(mid)
        m = w.market(mid)
        old_interval = sys.getswitchinterval()
        sys.setswitchinterval(1e-5)
        for rnd in range(desc["rounds"]):
            pool = ThreadPoolExecutor(max_workers=16)
            w.fw.betfair_execution._thread_pool = pool
            before = [c.transaction_count_total for c in w.clients]
            expect = [0, 0]
            for i in range(48):
                ci = i % 2
                n = 1 + i % 3
                with m.transaction(client=w.clients[ci]) as t:
                    for _ in range(n):
                        t.place_order(livecases.make_order(st, mid, sel=701 + i % 3, price=3.0, size=2.0), force=True)
                expect[ci] += n
            pool.shutdown(wait=True)
            out.rule("threaded-round")
            for ci, c in enumerate(w.clients):
                got = c.transaction_count_total - before[ci]
                if got != expect[ci]:
                    out.v("concurrent-count-lost-or-duplicated", {"direction": "under" if got < expect[ci] else "over"}, got=got, expected=expect[ci], round=rnd)
        sys.setswitchinterval(old_interval)
        out.c("yields", yields[0])
        out.d("threads:%d:%d" % (desc["idx"], yields[0] > 0))
    finally:
        try:
            mon.set_local_events(TOOL, code, 0)
            mon.register_callback(TOOL, mon.events.INSTRUCTION, None)
            mon.free_tool_id(TOOL)
        except Exception:
            pass
        w.fw.betfair_execution._thread_pool = live.ControlledExecutor()
        livecases.finish(w)


def run(desc):
    out = O.Out(PROPERTY)
    if desc["mode"] == "sim":
        run_sim(desc, out)
    elif desc["mode"] == "live":
        run_live(desc, out)
    else:
        run_threads(desc, out)
    return out.result(sample={"case": desc} if desc["idx"] < 3 else None)
