"""C15 - blotter views are coherent with the orders placed (simulation part; live part in c15 via vf.live)."""
from .. import oracles as O
from .. import simrun, simgen, observers
from . import _sim
from .. import livecases

PROPERTY = "C15"
LEVEL = "exploration"
DISTINCT_RULE = (
    "cases = seeded runs with several strategies, clients, selections and handicaps in one market (placements, replacements, completions, closures); "
    "distinct = (strategies, clients, orders<=8, replaced?, handicaps?) shapes of blotters inspected + status sets filtered"
)
RULES = ["blotter", "blotter-order", "filter", "client-view-vs-account"]
MINIMA = {"quick": {"rule_blotter": 20000, "rule_blotter-order": 100000, "rule_filter": 20000}, "thorough": {"rule_blotter": 600000}}
ASSUMPTIONS = ["shadow list = orders for which Transaction.place_order returned True (includes replacements placed by the execution)"]
WEIGHTS = [("hostile", 3), ("multi", 3), ("event", 2), ("fastlat", 2), ("recorded_event", 1)]


def plan(tier, seed):
    cases = _sim.plan_profiles(tier, seed, WEIGHTS, 4000, 60000)
    n = 1500 if tier == "quick" else 40000
    cases += [{"mode": "live_walk", "seed": seed, "idx": i, "cfg": {"n": 1 + i % 3, "async": i % 4 == 3, "hc": i % 7 == 3, "ext": i % 2 == 1, "sp": (i // 2) % 4 if i % 6 == 5 else 0}, "len": 9 + i % 6} for i in range(n)]
    cases += [{"mode": "paper_walk", "seed": seed, "idx": i, "len": 40 + i % 50} for i in range(300 if tier == "quick" else 6000)]
    # adoptions from the order stream for strategies registered at different times (before the first update, between updates)
    cases += [{"mode": "accounts", "seed": seed, "idx": i} for i in range(150 if tier == "quick" else 3000)]
    return cases + [{"mode": "adoption", "seed": seed, "idx": i} for i in range(200 if tier == "quick" else 4000)]


def build(desc):
    rng = simgen.mk_rng(desc["seed"], desc["idx"], 15)
    d = dict(desc)
    d["overrides"] = {
        "n_strategies": (1, 3),
        "market_params": dict(_sim.PROFILES[desc["profile"]]["market_params"], handicaps=rng.random() < 0.3),
        "script_params": {"n_orders": (2, 8), "p_replace": 0.35, "p_cancel": 0.3, "p_same_trade": 0.3},
    }
    case, snaps = _sim.build(d)
    n_clients = rng.choice((1, 2, 3))
    case["clients"] = [{"username": "sim%d" % i} for i in range(n_clients)]
    for s in case["strategies"]:
        for a in s["actions"]:
            if a["op"] == "place":
                a["client"] = rng.randrange(n_clients)
    if desc["idx"] % 4 == 1:
        for s in case["strategies"]:
            s["limits"] = dict(s.get("limits") or {}, market=1e6)  # (a market limit is configured: never reached, but evaluated)
    if desc["idx"] % 7 == 5 and len(case["strategies"]) > 1:
        # two instances of one strategy class added without distinct names (flumine only warns): each has its own orders in every view
        case["strategies"][1]["name"] = case["strategies"][0]["name"]
    return case, snaps


def run_adoption(desc):
    """A (re)started instance adopts the exchange's bets from order-stream snapshots; strategies are registered before the first
    snapshot and between snapshots; every bet of a registered strategy is in the blotter and in every view exactly once."""
    from .. import livecases, live

    rng = simgen.mk_rng(desc["seed"], desc["idx"], 151)
    out = O.Out(PROPERTY)
    first = [livecases.make_strategy("E%d" % i) for i in range(rng.randint(1, 2))]
    prior = None
    prior_bets = []
    if rng.random() < 0.4:
        # an earlier instance in the same process ran only part of the strategies and saw the others' bets as unknown; the exchange
        # state is then taken over by the instance under test, which runs them all
        prior_ex = live.Exchange()
        tr0, w0 = livecases.new_world([livecases.make_strategy("E0")], exchange=prior_ex)
        try:
            mid0 = w0.add_market_file(livecases.static_market())
            w0.next_book(mid0)
            for st in first:
                tw0 = livecases.make_strategy(st.name)
                for _ in range(rng.randint(1, 2)):
                    o0 = livecases.make_order(tw0, mid0, sel=rng.choice((701, 702)), side=rng.choice(("BACK", "LAY")), price=3.0, size=2.0)
                    b0 = prior_ex._new_bet(mid0, o0.create_place_instruction(), None)
                    prior_bets.append((st, o0.id, b0["betId"]))
            w0.snapshot()
            w0.snapshot()
        finally:
            livecases.finish(w0)
        prior = prior_ex
    tr, w = livecases.new_world(first, n_clients=rng.choice((1, 2)), **({"exchange": prior} if prior is not None else {}))
    try:
        mid = w.add_market_file(livecases.static_market())
        # after a restart the order stream may speak first: the market is then created from the first order update, its first
        # market book arrives later
        book_first = rng.random() < 0.5
        if book_first:
            w.next_book(mid)
        ex = w.exchange
        twins = {}
        expected = list(prior_bets)

        def bets_for(st, n):
            tw = twins.setdefault(st.name, livecases.make_strategy(st.name))
            for _ in range(n):
                sel, hc = rng.choice(((701, 0), (702, 0), (704, -1.5)))
                o = livecases.make_order(tw, mid, sel=sel, handicap=hc, side=rng.choice(("BACK", "LAY")), price=rng.choice((2.0, 3.0)), size=rng.choice((2.0, 5.0)))
                b = ex._new_bet(mid, o.create_place_instruction(), None)
                if rng.random() < 0.3:
                    ex.fill(b["betId"], b["sizeRemaining"] if rng.random() < 0.5 else 1.0)
                expected.append((st, o.id, b["betId"]))

        for st in first:
            bets_for(st, rng.randint(1, 3))

        # a bet of a strategy nobody registered
        ex._new_bet(mid, {"selectionId": 703, "side": "BACK", "orderType": "LIMIT", "handicap": 0, "customerOrderRef": "0123456789abc-111111111111111111", "limitOrder": {"price": 4.0, "size": 3.0, "persistenceType": "LAPSE"}}, None)
        w.snapshot()
        first_objs = {str(o.bet_id): o for o in (w.market(mid).blotter if w.market(mid) is not None else ())}
        if not book_first:
            w.next_book(mid)
            if rng.random() < 0.5:
                w.next_book(mid)
        for r_ in range(rng.randint(1, 3)):
            late = livecases.make_strategy("L%d" % r_)
            w.add_strategy(late)
            bets_for(late, rng.randint(1, 3))
            if rng.random() < 0.5:
                bets_for(rng.choice(first), 1)
            w.snapshot()
            if rng.random() < 0.3:
                w.snapshot()
        m = w.market(mid)
        tr.framework = w.fw
        observers.blotter_coherence(tr, m, "adoption")
        for st, oid, bet_id in expected:
            out.rule("adoption")
            got = [o for o in m.blotter if str(o.bet_id) == str(bet_id)]
            if len(got) != 1 or got[0].trade.strategy is not st or got[0].id != oid:
                out.v("registered-strategy-bet-not-in-blotter-once", {"late_strategy": st.name.startswith("L"), "count": min(len(got), 2), "book_first": book_first}, bet_id=bet_id, strategy=st.name)
            elif str(bet_id) in first_objs and got[0] is not first_objs[str(bet_id)]:
                out.v("adopted-order-replaced-by-another-object", {"book_first": book_first}, bet_id=bet_id, strategy=st.name)
            elif sum(1 for o in m.blotter.strategy_orders(st) if o is got[0]) != 1 or m.blotter.get_order_bet_id(bet_id) is not got[0]:
                out.v("adopted-order-missing-from-view", {"late_strategy": st.name.startswith("L")}, bet_id=bet_id, strategy=st.name)
        if len(m.blotter) != len(expected):
            out.v("blotter-holds-unknown-or-missing-orders", {"mode": "adoption"}, blotter=len(m.blotter), expected=len(expected))
        out.violations += [dict(v, tags=dict(v["tags"], exec="Betfair")) for v in tr.online if v["property"] == PROPERTY]
        for k, v in tr.counters.items():
            if k.startswith("rule_"):
                out.c(k, v)
        out.d("c15adopt:%d:%d" % (len(first), min(len(expected), 10)))
    finally:
        livecases.finish(w)
    return out.result()


def run(desc):
    if desc.get("mode") == "adoption":
        return run_adoption(desc)
    if desc.get("mode") == "accounts":
        # the by-client view against the outside: the bets each account actually holds at the exchange
        res = livecases.accounts_run(desc["seed"], desc["idx"])
        out = O.Out(PROPERTY)
        for user, (mine, held) in res["views"].items():
            out.rule("client-view-vs-account")
            if mine != held:
                out.v("client-view-differs-from-bets-held-by-the-account", {"clients": res["n_clients"]}, account=user, view=mine, held=held)
        out.d("c15accounts:%d:%d" % (res["n_clients"], min(len(res["per_order"]), 10)))
        return out.result()
    if desc.get("mode") == "paper_walk":
        from .. import paperwalk

        def observe(r, m, phase):
            r.tr.framework = r.w.fw
            observers.blotter_coherence(r.tr, m, "paper")

        r = paperwalk.walk(desc, observe, n_strategies=1 + desc["idx"] % 2)
        out = O.Out(PROPERTY)
        out.violations += [dict(v, tags=dict(v["tags"], exec="Paper")) for v in r.tr.online if v["property"] == PROPERTY]
        for k, v in r.tr.counters.items():
            if k.startswith("rule_"):
                out.c(k, v)
        out.c("paper_walks")
        out.d("c15paper:%d:%d" % (r.n_clients, min(len(r.orders), 10)))
        return out.result()
    if desc.get("mode") == "live_walk":
        from . import c11

        def observe(r):
            m = r.w.market(r.mid)
            if m is not None:
                r.tr.framework = r.w.fw
                observers.blotter_coherence(r.tr, m, "live")

        r = c11.walk(desc, observe)
        out = O.Out(PROPERTY)
        out.violations += [dict(v, tags=dict(v["tags"], exec="Betfair")) for v in r.tr.online if v["property"] == PROPERTY]
        for k, v in r.tr.counters.items():
            if k.startswith("rule_"):
                out.c(k, v)
        out.c("live_walks")
        out.d("c15live:%d:%s:%s" % (desc["cfg"]["n"], r.restarted, bool(r.replaced)))
        return out.result()
    case, snaps = build(desc)
    tr = simrun.run_case(case, observers=[observers.blotter_coherence], mw_observers=[observers.blotter_coherence])
    out = O.Out(PROPERTY)
    tags = O.root_causes(tr)
    O.abort_violation(tr, out)
    out.violations += [v for v in tr.online if v["property"] == PROPERTY]
    for k, v in tr.counters.items():
        if k.startswith("rule_"):
            out.c(k, v)
    replaced = any(getattr(o, "_vf_replacement", False) for o in tr.orders.values())
    out.d("c15:%d:%d:%d:%s:%s" % (len(case["strategies"]), len(case["clients"]), min(len(tr.orders), 8), replaced, any(o.handicap for o in tr.orders.values())))
    return out.result(sample=_sim.sample_of(case, tr) if desc["idx"] < 2 else None)
