"""C15 - blotter views are coherent with the orders placed (simulation part; live part in c15 via vf.live)."""
from .. import oracles as O
from .. import simrun, simgen, observers
from . import _sim

PROPERTY = "C15"
LEVEL = "exploration"
DISTINCT_RULE = (
    "cases = seeded runs with several strategies, clients, selections and handicaps in one market (placements, replacements, completions, closures); "
    "distinct = (strategies, clients, orders<=8, replaced?, handicaps?) shapes of blotters inspected + status sets filtered"
)
RULES = ["blotter", "blotter-order", "filter"]
MINIMA = {"quick": {"rule_blotter": 20000, "rule_blotter-order": 100000, "rule_filter": 20000}, "thorough": {"rule_blotter": 600000}}
ASSUMPTIONS = ["shadow list = orders for which Transaction.place_order returned True (includes replacements placed by the execution)"]
WEIGHTS = [("hostile", 3), ("multi", 3), ("event", 2), ("fastlat", 2), ("recorded_event", 1)]


def plan(tier, seed):
    cases = _sim.plan_profiles(tier, seed, WEIGHTS, 4000, 60000)
    n = 1500 if tier == "quick" else 40000
    cases += [{"mode": "live_walk", "seed": seed, "idx": i, "cfg": {"n": 1 + i % 3, "async": i % 4 == 3}, "len": 9 + i % 6} for i in range(n)]
    return cases + [{"mode": "paper_walk", "seed": seed, "idx": i, "len": 40 + i % 50} for i in range(300 if tier == "quick" else 6000)]


def build(desc):
    rng = simgen.mk_rng(desc["seed"], desc["idx"], 15)
    d = dict(desc)
    d["overrides"] = {
        "n_strategies": (1, 3),
        "market_params": dict(_sim.PROFILES[desc["profile"]]["market_params"], handicaps=rng.random() < 0.3),
        "script_params": {"n_orders": (2, 8), "p_replace": 0.35, "p_cancel": 0.3, "p_same_trade": 0.3},
    }
    case, snaps = _sim.build(d)
    n_clients = rng.choice((1, 2, 3))
    case["clients"] = [{"username": "sim%d" % i} for i in range(n_clients)]
    for s in case["strategies"]:
        for a in s["actions"]:
            if a["op"] == "place":
                a["client"] = rng.randrange(n_clients)
    return case, snaps


def run(desc):
    if desc.get("mode") == "paper_walk":
        from .. import paperwalk

        def observe(r, m, phase):
            r.tr.framework = r.w.fw
            observers.blotter_coherence(r.tr, m, "paper")

        r = paperwalk.walk(desc, observe, n_strategies=1 + desc["idx"] % 2)
        out = O.Out(PROPERTY)
        out.violations += [dict(v, tags=dict(v["tags"], exec="Paper")) for v in r.tr.online if v["property"] == PROPERTY]
        for k, v in r.tr.counters.items():
            if k.startswith("rule_"):
                out.c(k, v)
        out.c("paper_walks")
        out.d("c15paper:%d:%d" % (r.n_clients, min(len(r.orders), 10)))
        return out.result()
    if desc.get("mode") == "live_walk":
        from . import c11

        def observe(r):
            m = r.w.market(r.mid)
            if m is not None:
                r.tr.framework = r.w.fw
                observers.blotter_coherence(r.tr, m, "live")

        r = c11.walk(desc, observe)
        out = O.Out(PROPERTY)
        out.violations += [dict(v, tags=dict(v["tags"], exec="Betfair")) for v in r.tr.online if v["property"] == PROPERTY]
        for k, v in r.tr.counters.items():
            if k.startswith("rule_"):
                out.c(k, v)
        out.c("live_walks")
        out.d("c15live:%d:%s:%s" % (desc["cfg"]["n"], r.restarted, bool(r.replaced)))
        return out.result()
    case, snaps = build(desc)
    tr = simrun.run_case(case, observers=[observers.blotter_coherence], mw_observers=[observers.blotter_coherence])
    out = O.Out(PROPERTY)
    tags = O.root_causes(tr)
    O.abort_violation(tr, out)
    out.violations += [v for v in tr.online if v["property"] == PROPERTY]
    for k, v in tr.counters.items():
        if k.startswith("rule_"):
            out.c(k, v)
    replaced = any(getattr(o, "_vf_replacement", False) for o in tr.orders.values())
    out.d("c15:%d:%d:%d:%s:%s" % (len(case["strategies"]), len(case["clients"]), min(len(tr.orders), 8), replaced, any(o.handicap for o in tr.orders.values())))
    return out.result(sample=_sim.sample_of(case, tr) if desc["idx"] < 2 else None)
