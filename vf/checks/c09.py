"""C09 - runner removal voids bets on the runner and reduces the others once."""
from .. import oracles as O
from .. import simrun, simgen
from .. import marketgen as G
from . import _sim

PROPERTY = "C09"
LEVEL = "exploration"
DISTINCT_RULE = (
    "cases = seeded markets with 1-2 removals (factor None/0/<2.5/2.5/large, pre-play and in-play, same selection and factor in two markets of one run, "
    "sequential and event-grouped, WIN/PLACE/OTHER_PLACE/EACH_WAY) x orders in every state; distinct = (market type, factor class, order type, order status at removal)"
)
RULES = ["void", "reduction", "stable", "average", "book-current", "paper-arrival"]
MINIMA = {"quick": {"rule_void": 3000, "rule_reduction": 1500, "removals_in_files": 1200}, "thorough": {"rule_reduction": 50000}}
ASSUMPTIONS = ["removals and factors are read from the raw file lines", "simulated_full_match is not used here (its fragments bypass the fragment hook)"]
FACTORS = (None, 0, 1.3, 2.4, 2.5, 2.51, 12.0, 30.0, 64.0, 99.0)


def plan(tier, seed):
    n = 6000 if tier == "quick" else 60000
    kinds = ["single", "single", "inplay", "two_markets_seq", "two_markets_event", "no_factors", "single", "reopen_after_close"]
    # directed case for the listed finding C09-sp-lay-matched-late-withdrawal (a MARKET_ON_CLOSE lay matched at the starting price,
    # then a runner withdrawn in play with a factor >= 2.5)
    cases = [{"seed": seed, "idx": 0, "kind": "inplay", "force_moc_lay": True}] + [{"seed": seed, "idx": i, "kind": kinds[i % len(kinds)]} for i in range(1, n)]
    # paper trading: the same middleware voids the bets, completion is reported by the simulated order stream
    return cases + [{"seed": seed, "idx": i, "kind": "paper", "len": 50 + i % 40} for i in range(300 if tier == "quick" else 6000)]


def _one_market(rng, mid, kind, sels=None, t0=G.T0, factor=None, victim_i=None, event_id="30000001"):
    mt = rng.choice(("WIN", "WIN", "PLACE", "OTHER_PLACE", "EACH_WAY"))
    params = {
        "market_types": (mt,),
        "winners": (1,) if mt in ("WIN", "EACH_WAY") else (2, 3),
        "n_runners": (4, 6),
        "close": False,
        "p_removal": 0.0,
        "p_inplay": 0.0,
        "depth": (2, 5),
        "p_bsp": 0.9,
        "af": kind != "no_factors",
        "n_pre": (4, 9),
        "p_suspend_reopen": 0.2,
    }
    d = G.Director(rng, mid, params, selection_ids=sels, t0=t0, event_id=event_id)
    for _ in range(rng.randint(3, 7)):
        d.open_tick()
    inplay = kind == "inplay"
    if inplay:
        d.turn_inplay()
        for _ in range(rng.randint(1, 3)):
            d.open_tick()
    nrem = rng.choice((1, 1, 2))
    for j in range(nrem):
        act = d.active_keys()
        if len(act) <= 2:
            break
        victim = act[victim_i % len(act)] if (victim_i is not None and j == 0) else rng.choice(act)
        f = factor if (factor != "rand" and j == 0) else rng.choice(FACTORS)
        if kind == "no_factors":
            f = None
        d.remove_runner(victim, factor=f, with_suspend=rng.random() < 0.3)
        if d.mf.md["status"] == "SUSPENDED":
            d.reopen()
        for _ in range(rng.randint(1, 4)):
            d.open_tick()
    if not inplay and rng.random() < 0.4:
        d.turn_inplay()
        for _ in range(rng.randint(0, 3)):
            d.open_tick()
    d.close()
    if kind == "reopen_after_close":
        # the market is re-opened after CLOSED (removed runners stay removed) and closes again: still exactly one reduction
        d.reopen_after_close()
        d.close()
    return d.mf


def build(desc):
    rng = simgen.mk_rng(desc["seed"], desc["idx"], 9)
    kind = desc["kind"]
    case = {"seed": desc["seed"], "idx": desc["idx"]}
    mfs = []
    if kind.startswith("two_markets"):
        sels = [2000 + 3 * i for i in range(6)]
        f = rng.choice((2.5, 12.0, 30.0, 64.0))
        vi = rng.randrange(6)
        ev = kind == "two_markets_event"
        base = rng.randint(0, 9999) * 10
        for j in range(2):
            mfs.append(_one_market(rng, "1.2%08d" % (base + j), "single", sels=sels, t0=G.T0 + (j * 137 if ev else j * 3_600_000), factor=f, victim_i=vi))
        if ev:
            case["event_processing"] = True
    else:
        mfs.append(_one_market(rng, "1.2%08d" % rng.randint(0, 99999), kind, factor=12.0 if desc.get("force_moc_lay") else "rand"))
    snaps = {mf.market_id: G.read_lines(mf.lines) for mf in mfs}
    actions = []
    for mf in mfs:
        actions += simgen.gen_script(
            rng,
            snaps[mf.market_id],
            mf.market_id,
            "S0",
            {"n_orders": (4, 10), "types": ("LIMIT",) * 5 + ("LOC", "MOC", "MOC"), "modes": ("cross", "cross", "at", "rest", "join"), "p_cancel": 0.3, "p_update": 0.1, "p_replace": 0.15, "p_any_step": 0.0, "p_removed_runner": 0.1, "sizes": (2.0, 2.37, 5.0, 10.0)},
            ref_prefix="m%s_" % mf.market_id[-2:],
        )
    if desc.get("force_moc_lay"):
        mf = mfs[0]
        last = snaps[mf.market_id][-1]
        keep = [k_ for k_, r in last["runners"].items() if r["status"] in ("WINNER", "LOSER", "PLACED")]
        actions.insert(0, {"m": mf.market_id, "at": 0, "op": "place", "ref": "fml", "sel": list(keep[0]), "side": "LAY", "otype": "MOC", "liability": 10.0})
    case["markets"] = [{"id": mf.market_id, "text": mf.text()} for mf in mfs]
    case["strategies"] = [{"name": "S0", "actions": actions}]
    if not desc.get("force_moc_lay"):
        # non-default simulation settings: matching per framework instance instead of per strategy; resting orders also filled from
        # the sizes on offer (the removal is applied to every order either way)
        cfg_ = {}
        if desc["idx"] % 5 == 1:
            cfg_["simulated_strategy_isolation"] = False
        if desc["idx"] % 7 == 3:
            cfg_["simulation_available_prices"] = True
        if cfg_:
            case["config"] = cfg_
    if desc["idx"] % 4 == 2:
        # the strategy rebuilds market.context for its own bookkeeping; some orders are filed in the blotter without being sent
        simgen.usage_variants(case, snaps, simgen.mk_rng(desc["seed"], desc["idx"], 909), p_clear_context=0.8, p_execute_false=0.2)
    return case, snaps


def run_paper(desc):
    from .. import paperwalk

    out = O.Out(PROPERTY)

    def observe(r, m, phase):
        if phase != "book" or m.market_book is None:
            return  # judged at quiescent points: every call answered, one poll processed
        gone = {(rn.selection_id, rn.handicap) for rn in m.market_book.runners if rn.status == "REMOVED"}
        for o in m.blotter:
            if (o.selection_id, o.handicap) in gone and o.status is not None and o.status.name != "VIOLATION" and o.bet_id:
                out.rule("void")
                tags = {"otype": {"LIMIT": "LIMIT", "LIMIT_ON_CLOSE": "LOC", "MARKET_ON_CLOSE": "MOC"}[o.order_type.ORDER_TYPE.name], "paper": True, "persistence": getattr(o.order_type, "persistence_type", None)}
                if o.size_matched or o.simulated.size_matched:
                    out.v("removed-runner-order-still-matched", dict(tags, state_before="later", cause="-"), order=r.tr.okey(o))
                if o.size_remaining:
                    out.v("removed-runner-order-has-remaining", dict(tags, state_before="later", cause="-"), order=r.tr.okey(o))
                if not o.complete and o.status.name not in ("CANCELLING", "UPDATING", "REPLACING"):
                    out.v("removed-runner-order-not-complete", dict(tags, status=o.status.name, cause="-"), order=r.tr.okey(o))

    r = paperwalk.walk(desc, observe)
    # (an order whose runner was withdrawn while it was on its way is matched against the book in force when it arrives: the runner is gone)
    O.book_at_arrival_is_current(r.tr, out, {"paper": True})
    for p_ in r.tr.placements:
        out.rule("paper-arrival")
        if p_.get("rstatus") == "REMOVED" and p_.get("frags"):
            out.v("fill-on-removed-runner", {"paper": True}, placement={k: p_[k] for k in ("o", "book_pt", "frags", "rstatus")})
    out.c("removals_in_files", sum(1 for sn in r.snaps.values() for _ in O.removal_updates(sn)))
    out.c("paper_walks")
    out.d("c09paper:%d" % min(len(r.orders), 10))
    return out.result()


def run(desc):
    if desc["kind"] == "paper":
        return run_paper(desc)
    case, snaps = build(desc)
    tr = simrun.run_case(case)
    out = O.Out(PROPERTY)
    tags = O.root_causes(tr)
    O.abort_violation(tr, out)
    for sw in tr.swallowed:
        out.v("middleware-raised", {"exc": sw["type"], "where": sw["stack"][-1] if sw["stack"] else "?"}, swallowed=sw)
    O.c09_removals(tr, out, snaps, case, tags)
    return out.result(sample=_sim.sample_of(case, tr) if desc["idx"] < 2 else None)
