"""C03 - order lifecycle: one operation in flight, legal transitions, finality."""
from .. import oracles as O
from .. import simrun
from . import _sim

PROPERTY = "C03"
LEVEL = "exploration"
DISTINCT_RULE = (
    "cases = seeded markets x scripts whose requests race market events (fill, suspension lapse, removal, in-play turn, close); "
    "distinct = status paths seen through the _update_status hook plus (request kind, status at request, order type, outcome) guard cells"
)
RULES = ["transition", "status-log", "frozen-matched", "request-guard", "rejected-no-side-effect"]
MINIMA = {"quick": {"rule_transition": 20000, "rule_request-guard": 2000}, "thorough": {"rule_transition": 600000}}
ASSUMPTIONS = ["every status change goes through BaseOrder._update_status (hooked on the class)", "simulation paths only in this module; live paths in vf/checks/c03 live section"]
WEIGHTS = [("hostile", 4), ("fastlat", 3), ("plain", 1), ("multi", 1), ("event", 1), ("thin", 1)]
SCRIPT = {"p_cancel": 0.45, "p_update": 0.2, "p_replace": 0.3, "p_second_op": 0.6, "n_orders": (2, 8), "p_any_step": 0.3}


def plan(tier, seed):
    cases = _sim.plan_profiles(tier, seed, WEIGHTS, 8000, 80000)
    for c in cases:
        c["overrides"] = {"script_params": SCRIPT}
    # live-exchange double: response timings against order-stream updates (BetfairOrder) ...
    n = 1500 if tier == "quick" else 40000
    cases += [{"mode": "live_walk", "seed": seed, "idx": i, "cfg": {"n": 1 + i % 3, "async": i % 4 == 3}, "len": 9 + i % 6} for i in range(n)]
    # ... and every fault plan of the C12 enumeration (failure / timeout / lost-then-retried replies)
    from . import c12

    cases += [dict(c, mode="live_fault") for c in c12.plan(tier, seed) if c["mode"] == "live"]
    return cases


def run(desc):
    if desc.get("mode") == "live_walk":
        from . import c11

        r = c11.walk(desc)
        out = O.Out(PROPERTY)
        O.c03_lifecycle(r.tr, out, {}, exec_class="Betfair")
        out.c("live_walks")
        return out.result()
    if desc.get("mode") == "live_fault":
        from . import c12

        out12 = O.Out("C12")
        tr = c12.run_live(dict(desc, mode="live"), out12)
        out = O.Out(PROPERTY)
        O.c03_lifecycle(tr, out, {}, exec_class="Betfair")
        out.c("live_fault_plans")
        return out.result()
    case, snaps = _sim.build(desc)
    tr = simrun.run_case(case)
    out = O.Out(PROPERTY)
    O.abort_violation(tr, out)
    O.c03_lifecycle(tr, out, snaps)
    return out.result(sample=_sim.sample_of(case, tr) if desc["idx"] < 2 else None)
