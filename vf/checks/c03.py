"""C03 - order lifecycle: one operation in flight, legal transitions, finality."""
from .. import oracles as O
from .. import simrun
from . import _sim

PROPERTY = "C03"
LEVEL = "exploration"
DISTINCT_RULE = (
    "cases = seeded markets x scripts whose requests race market events (fill, suspension lapse, removal, in-play turn, close); "
    "distinct = status paths seen through the _update_status hook plus (request kind, status at request, order type, outcome) guard cells"
)
RULES = ["transition", "status-log", "frozen-matched", "request-guard", "rejected-no-side-effect"]
MINIMA = {"quick": {"rule_transition": 20000, "rule_request-guard": 2000}, "thorough": {"rule_transition": 600000}}
ASSUMPTIONS = ["every status change goes through BaseOrder._update_status (hooked on the class)", "simulation paths only in this module; live paths in vf/checks/c03 live section"]
WEIGHTS = [("hostile", 4), ("fastlat", 3), ("plain", 1), ("multi", 1), ("event", 1), ("thin", 1), ("lines", 1), ("recorded", 1), ("recorded_event", 1), ("nobpe", 1)]
SCRIPT = {"p_cancel": 0.45, "p_update": 0.2, "p_replace": 0.3, "p_second_op": 0.6, "n_orders": (2, 8), "p_any_step": 0.3}


DIRECTED_GAVE_UP = {"mode": "live_walk", "seed": 0, "idx": 3, "cfg": {"n": 1, "async": True, "hc": False, "ext": False, "sp": 0, "lose_reply": "all"}, "len": 0, "prefix": [["place", 0], ["resp", 0], ["snap"], ["update", 0], ["resp", 0], ["resp", 1], ["resp", 1], ["resp", 0]]}


def plan(tier, seed):
    cases = _sim.plan_profiles(tier, seed, WEIGHTS, 8000, 80000)
    for c in cases:
        c["overrides"] = {"script_params": SCRIPT}
    # live-exchange double: response timings against order-stream updates (BetfairOrder) ...
    n = 1500 if tier == "quick" else 40000
    cases += [{"mode": "live_walk", "seed": seed, "idx": i, "cfg": {"n": 1 + i % 3, "async": i % 4 == 3, "hc": i % 7 == 3, "ext": i % 2 == 1, "sp": (i // 2) % 4 if i % 6 == 5 else 0, "lose_reply": ("all" if i % 16 == 3 else True) if i % 8 == 3 else False}, "len": 9 + i % 6, "prefix": ([["place", 0], ["resp", 0], ["resp", 0], ["resp", 0], ["resp", 0], ["snap"]] if i % 16 == 3 else None)} for i in range(n)]
    cases += [{"mode": "betdaq_walk", "seed": seed, "idx": i, "len": 12 + i % 10} for i in range(n // 2)]
    # ... and every fault plan of the C12 enumeration (failure / timeout / lost-then-retried replies)
    from . import c12

    cases += [dict(c, mode="live_fault") for c in c12.plan(tier, seed) if c["mode"] == "live"]
    # paper trading (simulated execution on the pool of a live Flumine, completion reported by the poller)
    cases += [{"mode": "paper_walk", "seed": seed, "idx": i, "len": 40 + i % 50} for i in range(300 if tier == "quick" else 6000)]
    # directed case for the listed finding C03-gave-up-placement-completes-a-live-order
    cases.insert(0, dict(DIRECTED_GAVE_UP, seed=seed))
    return cases


class BetdaqDouble:
    """Betdaq counterpart of the exchange double: dict reports as BetdaqExecution reads them, polled order dicts
    as process_betdaq_current_order reads them."""

    def __init__(self, rng):
        self.rng = rng
        self.orders = {}
        self.next_id = 7000001
        self.seq = 41_000_000  # (real sequence numbers are large; every message carries freshly parsed values)
        self.fail_next = None
        self.memo = {}
        self.remember = False

    def _bump(self, o):
        self.seq += 1
        o["sequence_number"] = self.seq

    def place_orders(self, order_list):
        key = tuple(sorted(str(ins["PunterReferenceNumber"]) for ins in order_list))
        if key in self.memo:
            # the exchange processed this request earlier (event "exch"); this is its receipt being delivered
            return self.memo.pop(key)
        out = self._place(order_list)
        if self.remember:
            self.memo[key] = out
        return out

    def _place(self, order_list):
        out = []
        for ins in order_list:
            ref = ins["PunterReferenceNumber"] if isinstance(ins, dict) else getattr(ins, "PunterReferenceNumber", None)
            rc = 0 if self.rng.random() < 0.85 else 15
            rep = {"customer_reference": ref, "return_code": rc}
            if rc == 0:
                oid = self.next_id
                self.next_id += 1
                o = {"order_id": oid, "customer_reference": ref, "status": "Unmatched", "price": ins["Price"], "matched_size": 0.0, "matched_price": 0.0, "remaining_size": ins["Stake"], "size": ins["Stake"]}
                self._bump(o)
                self.orders[oid] = o
                rep["order_id"] = oid
            out.append(rep)
        self.rng.shuffle(out)
        return out

    def cancel_orders(self, order_ids):
        out = []
        for oid in order_ids:
            o = self.orders.get(oid)
            if o is None or self.rng.random() < 0.15:
                continue  # not returned
            if o["status"] == "Unmatched":
                o["status"] = "Cancelled"
                o["remaining_size"] = 0.0
                self._bump(o)
            out.append({"order_id": oid})
        return out

    def update_orders(self, order_list):
        out = []
        for ins in order_list:
            oid = ins["BetId"]
            o = self.orders.get(oid)
            rc = 0 if (o is not None and o["status"] == "Unmatched" and self.rng.random() < 0.8) else 22
            if rc == 0:
                o["price"] = ins["Price"]
                o["remaining_size"] = round(o["remaining_size"] + (ins.get("DeltaStake") or 0.0), 2)
                self._bump(o)
            out.append({"order_id": oid, "return_code": rc})
        return out

    def fill(self, oid):
        o = self.orders[oid]
        if o["status"] == "Unmatched":
            o["matched_size"] = o["remaining_size"]
            o["matched_price"] = o["price"]
            o["remaining_size"] = 0.0
            o["status"] = "Matched"
            self._bump(o)

    def poll(self):
        import copy

        # (as parsed from the wire: equal values are distinct objects from one poll to the next)
        return [dict(copy.deepcopy(o), sequence_number=int(str(o["sequence_number"]))) if "sequence_number" in o else copy.deepcopy(o) for o in self.orders.values()]


def run_betdaq_walk(desc):
    from flumine import Flumine, clients, config as fconfig
    from flumine.order.trade import Trade
    from flumine.order.ordertype import BetdaqLimitOrder
    from flumine.events.events import CurrentOrdersEvent
    from flumine.clients.clients import ExchangeType
    from flumine.exceptions import FlumineException
    from .. import live, livecases, simgen

    rng = simgen.mk_rng(desc["seed"], desc["idx"], 33)
    fconfig.simulated = False
    tr = simrun.Trace()
    simrun.attach(tr)
    dbl = BetdaqDouble(rng)
    api = live.FakeAPI(dbl, "bdq")
    client = clients.BetdaqClient(api, order_stream=False, transaction_limit=None)
    fw = Flumine(client=client)
    tr.framework = fw
    ex = live.ControlledExecutor()
    fw.betdaq_execution._thread_pool = ex
    st = livecases.make_strategy("B0")

    class _S:
        stream_id = 7

    st.streams = [_S()]
    fw.strategies(st, fw.clients, fw)
    out = O.Out(PROPERTY)
    try:
        w = live.LiveWorld.__new__(live.LiveWorld)
        w.fw, w.stream_id, w.gens, w.books = fw, 7, {}, {}
        mid = w.add_market_file(livecases.static_market())
        w.next_book(mid)
        m = fw.markets.markets[mid]
        orders = []
        for step in range(desc["len"]):
            k = rng.random()
            try:
                if k < 0.25 or not orders:
                    o = Trade(mid, rng.choice((701, 702)), 0, st).create_betdaq_order(rng.choice(("BACK", "LAY")), BetdaqLimitOrder(rng.choice((2.0, 3.05)), 2.0, 1, 0, 0))
                    if m.place_order(o):
                        orders.append(o)
                elif k < 0.38 and ex.queue:
                    ex.run(0)
                elif k < 0.45 and ex.queue:
                    # the exchange processes a queued placement now; its receipt reaches flumine later (a poll may overtake it)
                    fn, a, kw = ex.queue[0]
                    if fn.__name__ == "execute_place" and not getattr(a[0], "_vf_exchanged", False):
                        a[0]._vf_exchanged = True
                        dbl.remember = True
                        try:
                            dbl.place_orders(a[0].place_instructions)
                        finally:
                            dbl.remember = False
                        tr.counters["betdaq_exch"] += 1
                elif k < 0.6:
                    o = rng.choice(orders)
                    if rng.random() < 0.5:
                        m.cancel_order(o)
                    else:
                        m.update_order(o, size_delta=rng.choice((0.0, 1.0)), new_price=rng.choice((None, 3.0)))
                elif k < 0.75:
                    live_ids = [oid for oid, x in dbl.orders.items() if x["status"] == "Unmatched"]
                    if live_ids:
                        dbl.fill(rng.choice(live_ids))
                else:
                    fw._process_current_orders(CurrentOrdersEvent(dbl.poll(), exchange=ExchangeType.BETDAQ))
            except FlumineException:
                pass
        ex.run_all()
        fw._process_current_orders(CurrentOrdersEvent(dbl.poll(), exchange=ExchangeType.BETDAQ))
        O.c03_lifecycle(tr, out, {}, exec_class="Betdaq")
        # at quiescence (all responses delivered, latest poll processed) no order is left in flight
        for o in orders:
            out.rule("betdaq-quiescent")
            if o.status is not None and o.status.name in ("CANCELLING", "UPDATING", "REPLACING"):
                bo = dbl.orders.get(o.bet_id)
                out.v("betdaq-order-left-in-flight-after-poll", {"status": o.status.name}, bet=bo)
        out.c("betdaq_walks")
    finally:
        simrun.detach()
        for e in (fw.simulated_execution, fw.betfair_execution):
            e._thread_pool.shutdown(wait=False)
    return out.result()


def run(desc):
    if desc.get("mode") == "betdaq_walk":
        return run_betdaq_walk(desc)
    if desc.get("mode") == "paper_walk":
        from .. import paperwalk

        r = paperwalk.walk(desc)
        out = O.Out(PROPERTY)
        O.c03_lifecycle(r.tr, out, r.snaps, exec_class="Paper")
        out.c("paper_walks")
        return out.result()
    if desc.get("mode") == "live_walk":
        from . import c11

        r = c11.walk(desc)
        out = O.Out(PROPERTY)
        O.c03_lifecycle(r.tr, out, {}, exec_class="Betfair")
        if (desc.get("cfg") or {}).get("lose_reply") == "all":
            # (mechanism tag of the listed finding C03-gave-up-placement-completes-a-live-order)
            for v in out.violations:
                v["tags"] = dict(v["tags"], reply_never_arrived=True)
        out.c("live_walks")
        return out.result()
    if desc.get("mode") == "live_fault":
        from . import c12

        out12 = O.Out("C12")
        tr = c12.run_live(dict(desc, mode="live"), out12)
        out = O.Out(PROPERTY)
        O.c03_lifecycle(tr, out, {}, exec_class="Betfair")
        out.c("live_fault_plans")
        return out.result()
    case, snaps = _sim.build(desc)
    if desc["idx"] % 4 == 1:
        # requests of one step batched in one transaction with explicit execute() calls in between
        from .. import simgen

        rng = simgen.mk_rng(desc["seed"], desc["idx"], 31)
        for s in case["strategies"]:
            by_step = {}
            for a in s["actions"]:
                by_step.setdefault((a["m"], a["at"]), []).append(a)
            acts = []
            for (m, at), items in sorted(by_step.items(), key=lambda kv: kv[0][1]):
                if len(items) > 1:
                    acts.append({"m": m, "at": at, "op": "batch", "items": items, "execute_after": sorted(rng.sample(range(len(items)), rng.randint(0, min(2, len(items)))))})
                else:
                    acts += items
            s["actions"] = acts
    tr = simrun.run_case(case)
    out = O.Out(PROPERTY)
    O.abort_violation(tr, out)
    O.c03_lifecycle(tr, out, snaps)
    return out.result(sample=_sim.sample_of(case, tr) if desc["idx"] < 2 else None)
