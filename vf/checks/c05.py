"""C05 - fills never breach the limit; fill-or-kill is all-or-nothing."""
from .. import oracles as O
from .. import simrun
from . import _sim

PROPERTY = "C05"
LEVEL = "exploration"
DISTINCT_RULE = (
    "cases = seeded books (0-8 levels, gaps, empty sides, tiny/huge sizes) x limit orders through/at/behind the book; distinct = "
    "(side, price relative to best, FOK?, min-fill class, BPE, book depth<=4, response status) cells actually reached in SimulatedOrder.place"
)
RULES = ["placement", "level", "fok", "bpe-off", "fragment", "available"]
MINIMA = {"quick": {"rule_placement": 8000, "rule_fok": 1500, "rule_bpe-off": 800, "rule_fragment": 4000, "rule_available": 300}, "thorough": {"rule_placement": 300000}}
ASSUMPTIONS = ["book snapshot = runner.ex ladders copied at entry of SimulatedOrder.place", "simulated_full_match runs are exempt from the level clause only"]
WEIGHTS = [("thin", 3), ("deep", 4), ("nobpe", 3), ("fullmatch", 1), ("lines", 2), ("availprices", 2), ("hostile", 1), ("recorded", 2)]
SCRIPT = {"n_orders": (4, 12), "p_cancel": 0.1, "p_update": 0.05, "p_replace": 0.25, "p_finest": 0.12}


def plan(tier, seed):
    cases = _sim.plan_profiles(tier, seed, WEIGHTS, 8000, 100000)
    for c in cases:
        sp = dict(_sim.PROFILES[c["profile"]]["script_params"])
        sp.update(SCRIPT)
        c["overrides"] = {"script_params": sp}
    return cases


def run(desc):
    case, snaps = _sim.build(desc)
    tr = simrun.run_case(case)
    out = O.Out(PROPERTY)
    O.abort_violation(tr, out)
    O.c05_fills(tr, out)
    O.c05_available(tr, out, snaps)
    return out.result(sample=_sim.sample_of(case, tr) if desc["idx"] < 2 else None)
