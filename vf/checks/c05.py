"""C05 - fills never breach the limit; fill-or-kill is all-or-nothing."""
from .. import oracles as O
from .. import simrun
from . import _sim

PROPERTY = "C05"
LEVEL = "exploration"
DISTINCT_RULE = (
    "cases = seeded books (0-8 levels, gaps, empty sides, tiny/huge sizes) x limit orders through/at/behind the book; distinct = "
    "(side, price relative to best, FOK?, min-fill class, BPE, book depth<=4, response status) cells actually reached in SimulatedOrder.place"
)
RULES = ["placement", "level", "fok", "bpe-off", "fragment", "available", "book-vs-file", "book-current"]
MINIMA = {"quick": {"rule_placement": 8000, "rule_fok": 1500, "rule_bpe-off": 800, "rule_fragment": 4000, "rule_available": 300}, "thorough": {"rule_placement": 300000}}
ASSUMPTIONS = ["book snapshot = runner.ex ladders copied at entry of SimulatedOrder.place, itself compared with the reader's accumulation of the raw file for that publish time (rule book-vs-file)", "simulated_full_match runs are exempt from the level clause only"]
WEIGHTS = [("thin", 3), ("deep", 4), ("nobpe", 3), ("fullmatch", 1), ("lines", 2), ("availprices", 2), ("hostile", 1), ("recorded", 2)]
SCRIPT = {"n_orders": (4, 12), "p_cancel": 0.1, "p_update": 0.05, "p_replace": 0.25, "p_finest": 0.12}


def plan(tier, seed):
    cases = _sim.plan_profiles(tier, seed, WEIGHTS, 8000, 100000)
    for c in cases:
        sp = dict(_sim.PROFILES[c["profile"]]["script_params"])
        sp.update(SCRIPT)
        c["overrides"] = {"script_params": sp}
    # paper trading: the order reaches the simulated exchange after its latency, on a pool thread, while the main loop keeps processing
    # market updates - it is matched against the book in force when it arrives
    cases += [{"mode": "paper_walk", "seed": seed, "idx": i, "len": 40 + i % 50} for i in range(300 if tier == "quick" else 6000)]
    return cases


LISTENER = ({"inplay": True}, {"inplay": False}, {"seconds_to_start": 540}, {"seconds_to_start": 585}, {"max_inplay_seconds": 3})


def run(desc):
    if desc.get("mode") == "paper_walk":
        from .. import paperwalk

        r = paperwalk.walk(desc)
        out = O.Out(PROPERTY)
        O.book_at_arrival_is_current(r.tr, out, {"paper": True})
        O.c05_fills(r.tr, out)
        out.c("paper_walks")
        out.d("c05paper:%d" % min(len(r.orders), 10))
        return out.result()
    filt = desc["idx"] % 5 == 3 and desc["profile"] not in ("recorded",)
    if filt:
        # a listener filter skips part of the recording: what is matched against is still the recorded book of that moment.  The
        # ladders are left standing at suspensions (persisting bets) and only some runners move per update
        desc = dict(desc)
        ov = dict(desc.get("overrides") or {})
        mp = dict(_sim.PROFILES[desc["profile"]].get("market_params") or {})
        mp.update(p_keep_books=0.7, p_inplay=1.0, p_book_change=0.35, n_inplay=(4, 10), p_suspend_reopen=0.6)
        ov["market_params"] = mp
        desc["overrides"] = ov
    case, snaps = _sim.build(desc)
    if filt and not case.get("event_processing"):
        case["listener_kwargs"] = dict(LISTENER[(desc["idx"] // 5) % len(LISTENER)])
    tr = simrun.run_case(case)
    tr.listener_filters = tuple(case.get("listener_kwargs") or ())
    out = O.Out(PROPERTY)
    O.abort_violation(tr, out)
    O.book_at_arrival_matches_file(tr, out, snaps)
    O.book_at_arrival_is_current(tr, out)
    O.c05_fills(tr, out)
    O.c05_available(tr, out, snaps)
    return out.result(sample=_sim.sample_of(case, tr) if desc["idx"] < 2 else None)
