"""C11 - order-stream reconciliation converges on the exchange's view (schedule exploration at handler granularity)."""
import copy

from .. import oracles as O
from .. import simrun, simgen, livecases, live
from .. import marketgen as G

PROPERTY = "C11"
LEVEL = "exploration"
DISTINCT_RULE = (
    "schedules over {place, deliver response k, exchange fill/lapse, cancel/update/replace request, snapshot, stale snapshot, restart} are enumerated by depth-first "
    "re-execution for small configurations (every prefix is itself a history and is judged at quiescence) and sampled by seeded random walks beyond; distinct = distinct "
    "event sequences (interleavings) executed and judged"
)
RULES = ["converged-order", "exchange-bet", "restart-exposure", "unknown-strategy", "subscription"]
MINIMA = {"quick": {"rule_converged-order": 15000, "rule_exchange-bet": 15000, "rule_restart-exposure": 1500, "interleavings": 4000}, "thorough": {"interleavings": 150000}}
ASSUMPTIONS = [
    "the double's bet table is the sequential model of the exchange (DESIGN.md Appendix B')",
    "handler granularity: each execute_* call and each _process_current_orders call is atomic",
    "quiescence = every queued response delivered, then a snapshot of the current bet table processed",
    "live-trade counts after a restart are compared for single-order trades only (multi-order trades cannot be reconstructed from exchange data)",
]
WATCHDOG = {"quick": 900, "thorough": 3600}
SPECS = [(701, "BACK", 3.0, 10.0, 0), (701, "LAY", 2.0, 10.0, 0), (702, "BACK", 5.0, 6.0, 0)]
SP_SPECS = [(702, "BACK", "MOC", 6.0), (701, "LAY", "LOC", 10.0), (702, "LAY", "MOC", 12.0)]  # cfg["sp"]: the first order is a starting-price bet
HC_SPEC = (704, "LAY", 4.0, 8.0, -1.5)  # a handicap line: runner contexts are keyed (market, selection, handicap)


def plan(tier, seed):
    cases = []
    depth = 6 if tier == "quick" else 7
    for cfg in ({"n": 1, "async": False}, {"n": 1, "async": True}, {"n": 2, "async": False}, {"n": 1, "async": False, "hc": True}):
        d = depth if cfg["n"] == 1 else depth - 1
        for c0 in range(4):
            for c1 in range(8):
                for c2 in range(8):
                    cases.append({"mode": "dfs", "cfg": cfg, "prefix": [0, c0, c1, c2], "depth": d + 1, "tier": tier})
    nwalk = 8000 if tier == "quick" else 150000
    for i in range(nwalk):
        cases.append({"mode": "walk", "seed": seed, "idx": i, "cfg": {"n": 1 + i % 3, "async": i % 4 == 3, "foreign": i % 5 == 0, "hc": i % 3 == 1, "ext": i % 2 == 1, "sp": (i // 2) % 4 if i % 6 == 5 else 0, "veto": (seed * 100000 + i + 1) if i % 5 == 2 else 0, "restart2": i % 4 == 1, "orders_first": (i // 3) % 3, "lose_reply": i % 8 == 6}, "len": 10 + i % 5})
    for i in range(3):
        cases.append({"mode": "subscription", "idx": i})
    for i in range(120 if tier == "quick" else 2500):
        cases.append({"mode": "late_strategy", "seed": seed, "idx": i})
    # directed cases for the listed finding C11-placement-answer-never-arrives (synchronous and asynchronous placement)
    for asy in (False, True):
        cases.insert(0, {"mode": "events", "cfg": {"n": 1, "async": asy, "lose_reply": "all"}, "events": [["place", 0], ["resp", 0], ["resp", 0], ["resp", 0], ["resp", 0], ["snap"]]})
    # directed case for the listed finding C11-restart-replaced-bet
    cases.insert(0, {"mode": "events", "cfg": {"n": 1, "async": False}, "events": [["place", 0], ["resp", 0], ["fill", 0, 0.4], ["snap"], ["replace", 0], ["resp", 0], ["snap"], ["restart"]]})
    return cases


FOREIGN_MID = "1.177777777"


class Run:
    final = False

    def __init__(self, cfg):
        self.cfg = cfg
        self.names = ["A"]
        if cfg.get("after_backtest"):
            # a backtest ran earlier in this very process (notebook style); the live instance is then entered the way Flumine.run() does
            _mf = G.MarketFile("1.299999999", [(1, 0, 50.0), (2, 0, 50.0)], bsp=False)
            for i_ in range(3):
                _mf.emit(G.T0 + 1000 * (i_ + 1), rc={(1, 0): {"atb": {2.0: 10.0}, "atl": {2.2: 10.0}}})
            _mf.emit(G.T0 + 5000, md_changes={"status": "CLOSED"}, runner_md={(1, 0): {"status": "WINNER"}, (2, 0): {"status": "LOSER"}})
            simrun.run_case({"seed": 0, "idx": 0, "markets": [{"id": _mf.market_id, "text": _mf.text()}], "strategies": [{"name": "BT", "actions": [{"m": _mf.market_id, "at": 0, "op": "place", "ref": "b", "sel": [1, 0], "side": "BACK", "price": 2.0, "size": 2.0}]}]})
        self.tr, self.w = livecases.new_world([livecases.make_strategy("A", max_live_trade_count=1e6)], async_place=cfg.get("async", False), enter=bool(cfg.get("after_backtest")))
        self.worlds = [self.w]
        self.ex = self.w.exchange
        self.path = livecases.static_market()
        self.mid = self.w.add_market_file(self.path)
        self.w.next_book(self.mid)
        self.refs = {}  # i -> customer_order_ref
        self.objs = {}  # i -> order object placed in the first world
        self.placed = 0
        self.budget = {"fill": 2, "lapse": 1, "req": 2, "snap": 3, "stale": 1, "restart": 2 if cfg.get("restart2") else 1, "exch": 2, "void": 1, "sp": 1}  # restart2: the process is restarted twice (three instances in one process)
        self.saved = None
        self.log = []
        self.restarted = False
        self.replaced = set()
        self.stranded_by_own_exception = set()
        if cfg.get("cancel_fault"):
            # the exchange refuses cancels with an error code after which the bet is still live (market suspended while the call was on its way)
            code = cfg["cancel_fault"]
            self.ex.plan = lambda rec: ({"outcomes": [{"status": "FAILURE", "error": code}] * len(rec["instructions"])} if rec["kind"] == "CANCEL" else None)
        if cfg.get("lose_reply"):
            # the answer to the first attempt of a placement is lost on its way back (the exchange has booked the bets); the library
            # sends the request again
            every = cfg["lose_reply"] == "all"  # "all": no attempt is ever answered (the bets exist at the exchange all the same)
            self.ex.plan = lambda rec: ({"lose_reply": True} if rec["kind"] == "PLACE" and (every or rec["attempt"] == 1) and not rec.get("memo_hit") else None)
        if cfg.get("veto"):
            # a trading control added by the application refuses some cancel / update / replace requests (seeded); a refused request
            # leaves the order as it was
            from flumine.controls import BaseControl
            from flumine.order.orderpackage import OrderPackageType

            vrng = simgen.mk_rng(cfg["veto"], 0, 1111)

            class Veto(BaseControl):
                NAME = "VETO"

                def _validate(s_, order, package_type):
                    if package_type != OrderPackageType.PLACE and vrng.random() < 0.5:
                        s_._on_error(order, "vetoed")

            self.w.fw.trading_controls.append(Veto(self.w.fw))
        if cfg.get("foreign"):
            # bets of a strategy that is not registered here: must be ignored without effect - also one in a market this instance has
            # never heard of
            self.ex._new_bet(FOREIGN_MID, {"selectionId": 801, "side": "LAY", "orderType": "LIMIT", "handicap": 0, "customerOrderRef": "0123456789abc-222222222222222222", "limitOrder": {"price": 2.5, "size": 4.0, "persistenceType": "PERSIST"}}, None)
            self.ex._new_bet(self.mid, {"selectionId": 703, "side": "BACK", "orderType": "LIMIT", "handicap": 0, "customerOrderRef": "0123456789abc-111111111111111111", "limitOrder": {"price": 4.0, "size": 3.0, "persistenceType": "LAPSE"}}, None)

    # ---- resolution of "order i"
    def bet_of(self, i):
        ref = self.refs.get(i)
        bets = [b for b in self.ex.bets.values() if b["customerOrderRef"] == ref]
        return bets[-1] if bets else None

    def local_of(self, i):
        m = self.w.market(self.mid)
        b = self.bet_of(i)
        if m is not None and b is not None:
            for o in m.blotter:
                if str(o.bet_id) == b["betId"]:
                    return o
        if not self.restarted and i in self.objs:
            return self.objs[i].trade.orders[-1]
        return None

    def enabled(self):
        ev = []
        if self.placed < self.cfg["n"]:
            ev.append(("place", self.placed))
        for k in range(min(2, len(self.w.executor.queue))):
            ev.append(("resp", k))
            if self.budget["exch"] > 0 and not getattr(self.w.executor.queue[k][1][0], "_vf_exchanged", False):
                # the exchange processes the request now; its response reaches flumine later (a stream update may overtake it)
                ev.append(("exch", k))
        for i in range(self.placed):
            b = self.bet_of(i)
            if b is not None and b["status"] == "EXECUTABLE" and self.cfg.get("ext"):
                if self.budget["void"] > 0:
                    ev.append(("void", i))  # the runner is withdrawn at the exchange
                if b["orderType"] != "LIMIT" and self.budget["sp"] > 0:
                    ev.append(("sp", i))  # the starting price is struck
            if b is not None and b["sizeRemaining"] > 0:
                if self.budget["fill"] > 0:
                    ev.append(("fill", i, 1.0))
                    ev.append(("fill", i, 0.4))
                if self.budget["lapse"] > 0:
                    ev.append(("lapse", i))
            o = self.local_of(i)
            if o is not None and o.status is not None and o.status.name == "EXECUTABLE" and o.bet_id and self.budget["req"] > 0 and o.order_type.ORDER_TYPE.name == "LIMIT":
                ev.append(("cancel", i))
                if self.cfg.get("ext"):
                    ev.append(("pcancel", i))
                    ev.append(("tctx", i))
                    ev.append(("tresp", i))
                ev.append(("replace", i))
                ev.append(("update", i))
        if self.budget["snap"] > 0:
            ev.append(("snap",))
        if self.budget["stale"] > 0 and self.saved is not None:
            ev.append(("stale",))
        if self.budget["restart"] > 0 and self.placed > 0 and not self.w.executor.queue:
            ev.append(("restart",))
        return ev

    def do(self, e):
        self.log.append(list(e))
        m = self.w.market(self.mid)
        st = self.w.strategies[0]
        k = e[0]
        from flumine.exceptions import FlumineException

        try:
            if k == "place":
                if self.cfg.get("sp") and e[1] == 0:
                    sel, side, ot, liab = SP_SPECS[self.cfg["sp"] - 1]
                    o = livecases.make_order(st, self.mid, sel=sel, side=side, otype=ot, liability=liab, price=3.0)
                else:
                    sel, side, price, size, hc = HC_SPEC if (self.cfg.get("hc") and e[1] == 0) else SPECS[e[1]]
                    o = livecases.make_order(st, self.mid, sel=sel, side=side, price=price, size=size, handicap=hc)
                self.refs[e[1]] = o.customer_order_ref
                self.objs[e[1]] = o
                self.placed += 1
                m.place_order(o)
            elif k == "resp":
                self.w.executor.run(e[1])
            elif k == "exch":
                self.budget["exch"] -= 1
                self.w.exchange_process(e[1])
            elif k == "fill":
                b = self.bet_of(e[1])
                self.ex.fill(b["betId"], round(b["sizeRemaining"] * e[2], 2))
                self.budget["fill"] -= 1
            elif k == "void":
                self.ex.void(self.bet_of(e[1])["betId"])
                self.budget["void"] -= 1
            elif k == "sp":
                self.ex.reconcile_sp(self.bet_of(e[1])["betId"], 3.45)
                self.budget["sp"] -= 1
            elif k == "tctx":
                # the strategy wraps two requests in `with trade:`; the second is refused with an exception that leaves the block
                o = self.local_of(e[1])
                self.budget["req"] -= 1
                try:
                    with o.trade:
                        m.cancel_order(o)
                        m.replace_order(o, new_price=o.order_type.price)
                except FlumineException as ex2:
                    self.log[-1].append("exc:" + type(ex2).__name__)
                    # flumine deliberately leaves a trade PENDING when its own `with trade:` block raises (Trade.__exit__ logs it as
                    # critical); the next execution for one of its orders brings it back.  If nothing of this trade is on its way
                    # to the exchange, it stays like that by design: excluded from the trade-status rules below
                    if not any(any(x is o2 for o2 in o.trade.orders) for fn_, a_, kw_ in self.w.executor.queue for x in a_[0]):
                        self.stranded_by_own_exception.add(id(o.trade))
                        if not hasattr(self.tr, "own_exception_trades"):
                            self.tr.own_exception_trades = set()
                        self.tr.own_exception_trades.add(self.tr.tkey(o.trade))
            elif k == "tresp":
                # the strategy's own `with trade:` block is still open when the execution pool (another thread) processes the response
                # to the request made inside it: two blocks on the same trade overlap
                o = self.local_of(e[1])
                self.budget["req"] -= 1
                try:
                    with o.trade:
                        m.cancel_order(o, size_reduction=None if len(self.log) % 2 else round(max(0.01, (o.size_remaining or 1.0) * 0.5), 2))
                        if self.w.executor.queue:
                            self.w.executor.run(len(self.w.executor.queue) - 1)
                except FlumineException as ex2:
                    # (the block raised on its own: the trade is left PENDING by design, see `tctx`)
                    self.log[-1].append("exc:" + type(ex2).__name__)
                    if not any(any(x is o2 for o2 in o.trade.orders) for fn_, a_, kw_ in self.w.executor.queue for x in a_[0]):
                        self.stranded_by_own_exception.add(id(o.trade))
                        if not hasattr(self.tr, "own_exception_trades"):
                            self.tr.own_exception_trades = set()
                        self.tr.own_exception_trades.add(self.tr.tkey(o.trade))
            elif k == "pcancel":
                o = self.local_of(e[1])
                self.budget["req"] -= 1
                m.cancel_order(o, size_reduction=round(max(0.01, (o.size_remaining or 1.0) * 0.4), 2))
            elif k == "lapse":
                self.ex.lapse(self.bet_of(e[1])["betId"])
                self.budget["lapse"] -= 1
            elif k in ("cancel", "replace", "update"):
                o = self.local_of(e[1])
                self.budget["req"] -= 1
                if k == "cancel":
                    m.cancel_order(o)
                elif k == "replace":
                    m.replace_order(o, new_price=o.order_type.price + 1.0)
                    self.replaced.add(e[1])
                else:
                    m.update_order(o, new_persistence_type="LAPSE" if o.order_type.persistence_type != "LAPSE" else "PERSIST")
            elif k == "snap":
                if self.saved is None:
                    self.saved = self.ex.table()
                self.w.snapshot()
                self.budget["snap"] -= 1
            elif k == "stale":
                self.w.snapshot(table=self.saved)
                self.budget["stale"] -= 1
            elif k == "restart":
                self.budget["restart"] -= 1
                self.pre_crash = self.summary(self.w) if self.quiescent_and_synced() else None
                nw = live.LiveWorld([livecases.make_strategy("A", max_live_trade_count=1e6)], exchange=self.ex, async_place=self.cfg.get("async", False))
                nw.add_market_file(self.path)
                orders_first = bool(self.cfg.get("orders_first"))
                if not orders_first:
                    nw.next_book(self.mid)
                self.tr.framework = nw.fw
                self.worlds.append(nw)
                self.w = nw
                self.restarted = True
                self.tr.shadow[self.mid] = []  # a new instance has a new blotter: the shadow list (C15) restarts with it
                self.w.snapshot()
                if orders_first:
                    # the new instance learnt of the market from the order stream; its market data arrives afterwards
                    if self.cfg["orders_first"] > 1:
                        self.w.snapshot()
                    nw.next_book(self.mid)
        except FlumineException as ex_:
            self.log[-1].append("exc:" + type(ex_).__name__)

    def quiescent_and_synced(self):
        return False

    def summary(self, w):
        return None

    def close(self):
        simrun.detach()
        for w in self.worlds:
            w.close()


def bet_view(b):
    ot = {"LIMIT": "LIMIT", "LIMIT_ON_CLOSE": "LOC", "MARKET_ON_CLOSE": "MOC"}[b["orderType"]]
    done = b["status"] == "EXECUTION_COMPLETE"
    return {
        "status": "EXECUTION_COMPLETE" if done else "EXECUTABLE",
        "complete": done,
        "side": b["side"],
        "otype": ot,
        "ladder": "CLASSIC",
        "price": b["priceSize"]["price"],
        "size": b["priceSize"]["size"],
        "liability": b["bspLiability"],
        "matched": b["sizeMatched"],
        "avg": b["averagePriceMatched"],
        "remaining": b["sizeRemaining"],
        "sel": (b["selectionId"], b["handicap"]),
    }


def judge(run, out):
    """Quiescence: deliver every queued response, then process a snapshot of the current bet table."""
    w, ex = run.w, run.ex
    w.executor.run_all()
    w.snapshot()
    m = w.market(run.mid)
    st = w.strategies[0]
    restarted = run.restarted
    tags = {"restarted": restarted, "async": bool(run.cfg.get("async")), "replaced": bool(run.replaced)}
    if run.cfg.get("lose_reply") == "all":
        tags["reply_never_arrived"] = True  # (mechanism tag of the listed finding C11-placement-answer-never-arrives)
    known_hash = st.name_hash
    local = list(m.blotter) if m is not None else []
    by_bet = {}
    for o in local:
        if o.bet_id:
            by_bet.setdefault(str(o.bet_id), []).append(o)
    for bid, b in ex.bets.items():
        mine = (b["customerOrderRef"] or "")[:13] == known_hash
        out.rule("exchange-bet")
        got = by_bet.get(bid, [])
        if not mine:
            out.rule("unknown-strategy")
            if got:
                out.v("unknown-strategy-bet-tracked", tags, bet=b)
            continue
        if len(got) != 1:
            out.v("exchange-bet-not-tracked-exactly-once", dict(tags, count=min(len(got), 2), shared_ref=sum(1 for x in ex.bets.values() if x["customerOrderRef"] == b["customerOrderRef"]) > 1), bet=b, log=run.log)
            continue
        o = got[0]
        out.rule("converged-order")
        diffs = {}
        for name, lv, ev in (
            ("matched", o.size_matched, b["sizeMatched"]),
            ("remaining", o.size_remaining, b["sizeRemaining"]),
            ("cancelled", o.size_cancelled, b["sizeCancelled"]),
            ("lapsed", o.size_lapsed, b["sizeLapsed"]),
            ("voided", o.size_voided, b["sizeVoided"]),
        ):
            if abs((lv or 0.0) - ev) > 1e-9:
                diffs[name] = (lv, ev)
        if diffs:
            out.v("sizes-differ-from-exchange", dict(tags, fields=",".join(sorted(diffs))), bet=b, diffs=diffs, status=o.status.name, log=run.log)
        done = b["status"] == "EXECUTION_COMPLETE"
        if bool(o.complete) != done:
            out.v("completeness-differs-from-exchange", dict(tags, local=o.status.name), bet=b, log=run.log)
        in_live = any(x is o for x in m.blotter._live_orders)
        if o.complete and in_live:
            out.v("complete-order-still-in-live-list", tags, bet=b, log=run.log)
        if not o.complete and not in_live:
            out.v("live-order-missing-from-live-list", tags, bet=b, log=run.log)
        if o.trade.strategy is not st or o.market_id != b["marketId"] or (o.selection_id, o.side) != (b["selectionId"], b["side"]):
            out.v("order-in-wrong-market-or-strategy", tags, bet=b)
        if all(x.complete for x in o.trade.orders) and o.trade.status.name != "COMPLETE" and id(o.trade) not in run.stranded_by_own_exception:
            out.v("trade-not-complete-although-orders-are", dict(tags, tstatus=o.trade.status.name), bet=b, log=run.log)
    for o in local:
        if o.bet_id and str(o.bet_id) not in ex.bets:
            out.v("local-order-with-unknown-bet-id", tags, bet_id=o.bet_id)
    if run.cfg.get("foreign"):
        # "ignored without effect": nothing of the instance's own state knows of the foreign bets' market
        out.rule("unknown-strategy")
        extra = sorted(k for k in w.fw.markets.markets if k != run.mid)
        if extra:
            out.v("unknown-strategy-update-had-effect", dict(tags, effect="market-registered"), markets=extra)
        if any(mid_ != run.mid for mid_ in list(st.handed_orders) + list(st.new_markets)):
            out.v("unknown-strategy-update-had-effect", dict(tags, effect="strategy-callback"), handed=sorted(st.handed_orders), new=st.new_markets)
    # exposure and live-trade accounting computed from the exchange's table (restart: the only source of truth)
    mine = [b for b in ex.bets.values() if (b["customerOrderRef"] or "")[:13] == known_hash]
    if mine and m is not None:
        by_sel = {}
        for b in mine:
            by_sel.setdefault((b["selectionId"], b["handicap"]), []).append(bet_view(b))
        for sel, views in by_sel.items():
            w_, l_ = O.selection_wpp(views)
            got = m.blotter.get_exposures(st, (run.mid, sel[0], sel[1]))
            out.rule("restart-exposure" if restarted else "exposure")
            if abs(got["worst_possible_profit_on_win"] - w_) > 0.011 or abs(got["worst_possible_profit_on_lose"] - l_) > 0.011:
                out.v("exposure-differs-from-exchange-table", dict(tags, shared_ref=len({b["customerOrderRef"] for b in mine}) < len(mine)), got=got, expected=(w_, l_), log=run.log)
            # ... and through the Market object the strategy itself is handed with its market data (what its own code works with)
            hm = st.handed.get(run.mid)
            if hm is not None and hm is not m:
                got_h = hm.blotter.get_exposures(st, (run.mid, sel[0], sel[1]))
                if abs(got_h["worst_possible_profit_on_win"] - w_) > 0.011 or abs(got_h["worst_possible_profit_on_lose"] - l_) > 0.011:
                    out.v("exposure-differs-from-exchange-table", dict(tags, via="market-handed-to-strategy", shared_ref=len({b["customerOrderRef"] for b in mine}) < len(mine)), got=got_h, expected=(w_, l_), log=run.log)
            # live-trade count: one trade per customer reference chain
            live_refs = {b["customerOrderRef"] for b in mine if (b["selectionId"], b["handicap"]) == sel and b["status"] != "EXECUTION_COMPLETE"}
            ctx = st.get_runner_context(run.mid, sel[0], sel[1])
            if any(id(o_.trade) in run.stranded_by_own_exception for o_ in local if (o_.selection_id, o_.handicap) == sel):
                continue
            if ctx.live_trade_count != len(live_refs):
                out.v("live-trade-count-differs-from-exchange-table", dict(tags, shared_ref=len({b["customerOrderRef"] for b in mine}) < len(mine), direction="over" if ctx.live_trade_count > len(live_refs) else "under"), ctx=ctx.live_trade_count, expected=len(live_refs), log=run.log)
    out.d("seq:%s%s%s:%r" % (run.cfg.get("n"), "a" if run.cfg.get("async") else "s", "h" if run.cfg.get("hc") else "", run.log))
    out.c("interleavings")


def run_events(cfg, events, out):
    r = Run(cfg)
    try:
        for e in events:
            en = r.enabled()
            if tuple(e) not in [tuple(x) for x in en]:
                # not enabled at this point: the schedule is infeasible
                return None
            r.do(tuple(e))
        judge(r, out)
        return r
    finally:
        r.close()


def explore(cfg, prefix, depth, out, budget):
    """DFS by re-execution: `prefix` is a list of choice indices into the enabled list."""
    if budget[0] <= 0:
        out.c("dfs_budget_exhausted")
        return
    r = Run(cfg)
    try:
        for c in prefix:
            en = r.enabled()
            if c >= len(en):
                return
            r.do(en[c])
        b = len(r.enabled())
        budget[0] -= 1
        judge(r, out)
    finally:
        r.close()
    if len(prefix) < depth:
        for c in range(b):
            explore(cfg, prefix + [c], depth, out, budget)


def walk(case, observe=None):
    """Seeded random walk over the event alphabet; `observe(run)` is called after every event (handler step).
    Returns the Run, closed (hooks detached); used by the live parts of C03 / C10 / C15."""
    rng = simgen.mk_rng(case["seed"], case["idx"], 11)
    r = Run(case["cfg"])
    try:
        for e in case.get("prefix") or ():
            # a scripted beginning (skipped where not enabled), then the random walk
            if tuple(e) in [tuple(x) for x in r.enabled()]:
                r.do(tuple(e))
                if observe:
                    observe(r)
        for _ in range(case["len"]):
            en = r.enabled()
            if not en:
                break
            r.do(rng.choice(en))
            if observe:
                observe(r)
        r.w.executor.run_all()
        r.w.snapshot()
        r.final = True  # quiescent and synced: every response delivered, the current bet table processed
        if observe:
            observe(r)
    finally:
        r.close()
    return r


def exchange_truth(run):
    """Per runner of the walk's strategy: (runner context, bets of the exchange's table).  Valid at run.final."""
    st = run.w.strategies[0]
    mine = [b for b in run.ex.bets.values() if (b["customerOrderRef"] or "")[:13] == st.name_hash]
    by_sel = {}
    for b in mine:
        by_sel.setdefault((b["selectionId"], b["handicap"]), []).append(b)
    return st, by_sel


def run_subscription(case, out):
    """The order stream only reports what its subscription asks for: the strategy reference it subscribes with is the one the
    instance's placements carry (config.customer_strategy_ref as set by the application at start-up, after the import)."""
    from flumine import config as fconfig
    from flumine.streams.orderstream import OrderStream

    ref = "inst-%d" % case["idx"]
    saved = fconfig.customer_strategy_ref
    fconfig.customer_strategy_ref = ref
    try:
        st = livecases.make_strategy("A")
        tr, w = livecases.new_world([st])
        try:
            mid = w.add_market_file(livecases.static_market())
            w.next_book(mid)
            m = w.market(mid)
            for k_ in range(2):
                m.place_order(livecases.make_order(st, mid, sel=701 + k_, side="BACK", price=3.0, size=2.0))
            w.executor.run_all()
            subs = []

            class _Stream:
                def subscribe_to_orders(s_, order_filter=None, conflate_ms=None, **kw):
                    subs.append(order_filter)
                    return 77

                def start(s_):
                    return None

            class _Streaming:
                def create_stream(s_, unique_id=None, listener=None, **kw):
                    return _Stream()

            client = w.clients[0]
            client.betting_client.streaming = _Streaming()
            os_ = OrderStream(w.fw, stream_id=77, streaming_timeout=0.05, conflate_ms=50, client=client)
            getattr(OrderStream.run, "__wrapped__", OrderStream.run)(os_)  # (without tenacity's endless retry)
            out.rule("subscription")
            if len(subs) != 1:
                out.v("order-stream-subscription-not-made-once", {}, n=len(subs))
            else:
                asked = (subs[0] or {}).get("customerStrategyRefs")
                sent = sorted({b["customerStrategyRef"] for b in w.exchange.bets.values()})
                if asked is not None and any(x not in asked for x in sent):
                    out.v("order-stream-subscription-excludes-own-bets", {}, subscribed=asked, placed_with=sent, config=ref)
            out.d("subscription")
        finally:
            livecases.finish(w)
    finally:
        fconfig.customer_strategy_ref = saved


def run_late_strategy(case, out):
    """After a restart the application registers one of its strategies later than the others (a worker adds it once its data is ready):
    its bets at the exchange are adopted from the next snapshot on, exactly once, and count towards its exposure and live trades."""
    rng = simgen.mk_rng(case["seed"], case["idx"], 1111)
    ex = live.Exchange()
    names = ["A", "B", "C"][: rng.choice((2, 3))]
    mid = None
    placed = {}
    # before the crash: every strategy has bets
    tr0, w0 = livecases.new_world([livecases.make_strategy(n) for n in names], exchange=ex)
    try:
        mid = w0.add_market_file(livecases.static_market())
        w0.next_book(mid)
        m0 = w0.market(mid)
        for st in w0.strategies:
            for j in range(rng.randint(1, 3)):
                o = livecases.make_order(st, mid, sel=rng.choice((701, 702, 703)), side=rng.choice(("BACK", "LAY")), price=rng.choice((2.0, 3.0)), size=rng.choice((2.0, 5.0)))
                m0.place_order(o)
                placed.setdefault(st.name, []).append(o.customer_order_ref)
        w0.executor.run_all()
        w0.snapshot()
    finally:
        livecases.finish(w0)
    k = rng.randint(1, len(names) - 1)  # strategies registered at start-up; the others come later
    sts = {n: livecases.make_strategy(n) for n in names}
    tr, w = livecases.new_world([sts[n] for n in names[:k]], exchange=ex)
    try:
        w.add_market_file(livecases.static_market())
        if rng.random() < 0.5:
            w.next_book(mid)
        for _ in range(rng.randint(1, 2)):
            w.snapshot()
        for n in names[k:]:
            w.add_strategy(sts[n])
            for _ in range(rng.randint(1, 2)):
                w.snapshot()
        w.next_book(mid)
        m = w.market(mid)
        for n in names:
            st = sts[n]
            mine = [b for b in ex.bets.values() if b["customerOrderRef"] in placed[n]]
            for b in mine:
                out.rule("exchange-bet")
                got = [o for o in (m.blotter if m is not None else ()) if str(o.bet_id) == b["betId"]]
                if len(got) != 1 or got[0].trade.strategy is not st:
                    out.v("exchange-bet-not-tracked-exactly-once", {"restarted": True, "late_strategy": n in names[k:], "count": min(len(got), 2), "async": False, "replaced": False, "shared_ref": False}, bet=b["betId"], strategy=n)
            by_sel = {}
            for b in mine:
                by_sel.setdefault((b["selectionId"], b["handicap"]), []).append(bet_view(b))
            for sel, views in by_sel.items():
                out.rule("restart-exposure")
                w_, l_ = O.selection_wpp(views)
                got = m.blotter.get_exposures(st, (mid, sel[0], sel[1])) if m is not None else {"worst_possible_profit_on_win": 0.0, "worst_possible_profit_on_lose": 0.0}
                if abs(got["worst_possible_profit_on_win"] - w_) > 0.011 or abs(got["worst_possible_profit_on_lose"] - l_) > 0.011:
                    out.v("exposure-differs-from-exchange-table", {"restarted": True, "late_strategy": n in names[k:], "async": False, "replaced": False, "shared_ref": False}, strategy=n, got=got, expected=(w_, l_))
                ctx = st.get_runner_context(mid, sel[0], sel[1])
                live_refs = {b["customerOrderRef"] for b in mine if (b["selectionId"], b["handicap"]) == sel and b["status"] != "EXECUTION_COMPLETE"}
                if ctx.live_trade_count != len(live_refs):
                    out.v("live-trade-count-differs-from-exchange-table", {"restarted": True, "late_strategy": n in names[k:], "async": False, "replaced": False, "shared_ref": False, "direction": "over" if ctx.live_trade_count > len(live_refs) else "under"}, strategy=n, ctx=ctx.live_trade_count, expected=len(live_refs))
        out.d("late:%d:%d" % (len(names), k))
    finally:
        livecases.finish(w)


def run(case):
    out = O.Out(PROPERTY)
    if case["mode"] == "late_strategy":
        run_late_strategy(case, out)
        return out.result()
    if case["mode"] == "subscription":
        run_subscription(case, out)
        return out.result()
    if case["mode"] == "dfs":
        explore(case["cfg"], case["prefix"], case["depth"], out, [4000 if case.get("tier") == "thorough" else 1500])
    elif case["mode"] == "events":
        run_events(case["cfg"], case["events"], out)
    else:
        rng = simgen.mk_rng(case["seed"], case["idx"], 11)
        r = Run(case["cfg"])
        try:
            for _ in range(case["len"]):
                en = r.enabled()
                if not en:
                    break
                # bias towards responses and snapshots so that histories progress
                r.do(rng.choice(en))
            judge(r, out)
        finally:
            r.close()
    return out.result(sample={"case": case} if case["mode"] == "events" else None)
