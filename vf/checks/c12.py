"""C12 - exchange call faults never strand an order or lose a transaction count (fault enumeration)."""
import itertools

from .. import oracles as O
from .. import simrun, simgen, livecases, live
from . import _sim

PROPERTY = "C12"
LEVEL = "fault_enumeration"
DISTINCT_RULE = (
    "fault plans are enumerated, not sampled: every assignment of {SUCCESS (+taken/expired), FAILURE x error codes, TIMEOUT (bet exists / not)} to the instructions of "
    "packages of 1..3 orders of each kind, cancel reports reordered / omitted, BetfairError subclasses on attempts 1..4, exchange-side completion between request and "
    "response; plus simulation runs where orders complete in flight; distinct = distinct (kind, n, outcome vector, error plan, pre-event) plans executed"
)
RULES = ["post-state", "count", "retry-bound", "attribution", "sim-effect", "paper-call", "paper-quiescent", "wire"]
MINIMA = {"quick": {"rule_post-state": 1500, "rule_count": 1500, "rule_attribution": 600, "rule_sim-effect": 4000, "rule_paper-call": 3000, "rule_paper-quiescent": 3000}, "thorough": {"rule_post-state": 8000}}
ASSUMPTIONS = [
    "the exchange double returns real betfairlightweight resources built from API-format JSON (DESIGN.md Appendix B')",
    "handler granularity: the execution pool is replaced by a controllable executor; the retry back-off sleep is virtual",
    "Betdaq execution is outside, as the property says",
]
WATCHDOG = {"quick": 900, "thorough": 3600}

PLACE_OUT = [
    {"status": "SUCCESS"},
    {"status": "SUCCESS", "take": "full"},
    {"status": "SUCCESS", "take": "half"},
    {"status": "SUCCESS", "expire": True},
    {"status": "FAILURE", "error": "ERROR_IN_ORDER"},
    {"status": "FAILURE", "error": "INSUFFICIENT_FUNDS"},
    {"status": "TIMEOUT", "exists": True},
    {"status": "TIMEOUT", "exists": False},
]
# (error codes after which the bet is still live at the exchange: BET_ACTION_ERROR, MARKET_NOT_OPEN_FOR_BETTING, MARKET_SUSPENDED)
CANCEL_OUT = [
    {"status": "SUCCESS"},
    {"status": "FAILURE", "error": "BET_TAKEN_OR_LAPSED"},
    {"status": "FAILURE", "error": "BET_ACTION_ERROR"},
    {"status": "TIMEOUT"},
    {"status": "FAILURE", "error": "MARKET_NOT_OPEN_FOR_BETTING"},
    {"status": "FAILURE", "error": "MARKET_SUSPENDED"},
]
UPDATE_OUT = [{"status": "SUCCESS"}, {"status": "FAILURE", "error": "BET_ACTION_ERROR"}, {"status": "TIMEOUT"}, {"status": "FAILURE", "error": "MARKET_NOT_OPEN_FOR_BETTING"}]
REPLACE_OUT = [
    {"status": "SUCCESS"},
    {"status": "SUCCESS", "place": "FAILURE"},
    {"status": "SUCCESS", "place": "TIMEOUT"},
    {"status": "FAILURE", "error": "BET_TAKEN_OR_LAPSED"},
    {"status": "FAILURE", "error": "BET_ACTION_ERROR"},
    {"status": "TIMEOUT"},
    {"status": "FAILURE", "error": "MARKET_NOT_OPEN_FOR_BETTING"},
]
OUTS = {"PLACE": PLACE_OUT, "CANCEL": CANCEL_OUT, "UPDATE": UPDATE_OUT, "REPLACE": REPLACE_OUT}


def plan(tier, seed):
    cases = []
    sizes = (1, 2) if tier == "quick" else (1, 2, 3)
    for kind, outs in OUTS.items():
        for n in sizes:
            for combo in itertools.product(range(len(outs)), repeat=n):
                # stream_between: the exchange processes the call, an order-stream snapshot is handled, then the response arrives
                pres = ("none", "stream_between") if kind == "PLACE" else ("none", "fill_first", "partial_first", "stream_between")
                for pre in pres:
                    cases.append({"mode": "live", "kind": kind, "n": n, "out": list(combo), "pre": pre})
    # n = 3 on the quick tier: a seeded sample (complete on thorough)
    if tier == "quick":
        rng = simgen.mk_rng(seed, 12, 0)
        for kind, outs in OUTS.items():
            allc = list(itertools.product(range(len(outs)), repeat=3))
            for combo in rng.sample(allc, min(len(allc), 40)):
                cases.append({"mode": "live", "kind": kind, "n": 3, "out": list(combo), "pre": "none"})
    # cancel reports reordered / omitted
    for n in (2, 3):
        for perm in itertools.permutations(range(n)):
            for omit in [()] + [(j,) for j in range(n)]:
                for combo in itertools.product(range(len(CANCEL_OUT)), repeat=n) if tier == "thorough" or n == 2 else [(0,) * n, (1, 0, 3), (2, 2, 0)]:
                    cases.append({"mode": "live", "kind": "CANCEL", "n": n, "out": list(combo), "pre": "none", "order": list(perm), "omit": list(omit)})
    # API errors on attempts 1..4
    for kind in OUTS:
        for n in (1, 2, 3):
            for exc in ("APIError", "InvalidResponse", "StatusCodeError", "ConnectionDropped", "ReadTimeout", "APIErrorReply"):
                for k in (1, 2, 3, 4, 7):
                    cases.append({"mode": "live", "kind": kind, "n": n, "out": [0] * n, "pre": "none", "api_error": exc, "attempts": k})
    # the same retry bound counted on the wire (local HTTP server behind a real APIClient and the execution layer's own sessions)
    for kind in ("PLACE", "CANCEL"):
        for how in ("503", "drop"):
            for k in (1, 2, 3, 4, 6):
                cases.append({"mode": "wire", "kind": kind, "how": how, "attempts": k, "n": 1 + (k % 2)})
    # async placement
    for n in (1, 2):
        for combo in itertools.product(range(len(PLACE_OUT)), repeat=n):
            for pre in ("none", "stream_between"):
                cases.append({"mode": "live", "kind": "PLACE", "n": n, "out": list(combo), "pre": pre, "async": True})
    # simulation: orders completed in flight by being matched / lapsed / voided
    nsim = 4000 if tier == "quick" else 40000
    for i in range(nsim):
        cases.append({"mode": "sim", "seed": seed, "idx": i, "profile": ("hostile", "fastlat", "multi", "event")[i % 4]})
    # paper trading: the simulated execution on its thread pool inside a live Flumine (orders complete between request and response
    # by being matched while the call waits in the pool; the poller reports completion later)
    for i in range(400 if tier == "quick" else 8000):
        cases.append({"mode": "paper", "seed": seed, "idx": i, "len": 40 + i % 50})
    return cases


# ------------------------------------------------------------------------------------------------
# live fault plans
# ------------------------------------------------------------------------------------------------


def run_live(case, out):
    kind, n = case["kind"], case["n"]
    st = livecases.make_strategy()
    tr, w = livecases.new_world([st], async_place=bool(case.get("async")))
    try:
        mid = w.add_market_file(livecases.static_market())
        w.next_book(mid)
        m = w.market(mid)
        ex = w.exchange
        client = w.clients[0]
        orders = [livecases.make_order(st, mid, sel=701 + (i % 3), side=("BACK", "LAY")[i % 2], price=3.0 + i, size=10.0) for i in range(n)]
        outs = [OUTS[kind][j] for j in case["out"]]
        api = live.API_ERRORS[case["api_error"]] if case.get("api_error") else None

        def fault_plan(rec):
            if rec["kind"] != kind:
                return None
            if api is not None and rec["attempt"] <= case["attempts"]:
                return {"raise_": api}
            return {"outcomes": outs, "order": case.get("order"), "omit": set(case.get("omit") or ())}

        if kind == "PLACE":
            ex.plan = fault_plan
            with m.transaction() as t:
                for o in orders:
                    t.place_order(o)
            if case["pre"] == "stream_between" and w.executor.queue:
                w.exchange_process(0)
                w.snapshot()
            w.executor.run_all()
        else:
            with m.transaction() as t:
                for o in orders:
                    t.place_order(o)
            w.executor.run_all()
            w.snapshot()
            if case["pre"] == "partial_first":
                ex.fill(orders[0].bet_id, 4.0)
                w.snapshot()
            ex.plan = fault_plan
            with m.transaction() as t:
                for i, o in enumerate(orders):
                    if kind == "CANCEL":
                        t.cancel_order(o, size_reduction=(None, 3.0)[i % 2])
                    elif kind == "UPDATE":
                        t.update_order(o, new_persistence_type="LAPSE")
                    else:
                        t.replace_order(o, new_price=5.0 + i)
            if case["pre"] == "fill_first":
                # the bet is taken at the exchange between the request and the response; the stream reports it
                ex.fill(orders[0].bet_id, 100.0)
                w.snapshot()
            if case["pre"] == "stream_between" and w.executor.queue:
                w.exchange_process(0)
                w.snapshot()
            w.executor.run_all()
        ncalls = [c for c in ex.calls if c["kind"] == kind]
        tags = {"kind": kind, "exec": "Betfair", "api_error": case.get("api_error") or "-", "pre": case["pre"], "async": bool(case.get("async"))}
        all_orders = list(orders)
        for o in orders:
            for x in o.trade.orders:
                if x not in all_orders:
                    all_orders.append(x)
        # ---- an execution call that raises ends there (the pool keeps the exception in a Future nobody reads)
        for err in w.executor.errors:
            out.v("execution-call-raised", dict(tags, call=err["call"], exc=err["exc"], where=err["where"]), error=err)
        # ---- post state: every order can progress
        for i, o in enumerate(all_orders):
            out.rule("post-state")
            s = o.status.name if o.status else None
            oc = outs[i]["status"] if i < len(outs) else "-"
            if s in O.INFLIGHT:
                out.v("order-left-in-flight", dict(tags, status=s, outcome=oc), order=simrun.order_view(o), case=case)
            if s == "PENDING":
                # (async placement: the exchange answers PENDING and the bet id comes with the order stream - but a placement it
                # REPORTS as failed has been refused, nothing can come of it)
                may_exist = kind == "PLACE" and (oc == "TIMEOUT" or (case.get("async") and oc != "FAILURE")) and not (api is not None and case["attempts"] >= 4)
                if not may_exist:
                    out.v("order-left-pending", dict(tags, outcome=oc), order=simrun.order_view(o), case=case)
            if o.trade.status.name == "PENDING":
                out.v("trade-left-pending", tags, case=case)
        # ---- retry bound
        out.rule("retry-bound")
        if len(ncalls) > 4:
            out.v("too-many-calls-for-one-package", tags, calls=len(ncalls))
        if api is not None and len(ncalls) != min(case["attempts"] + 1, 4):
            out.v("retry-count-differs", dict(tags, attempts=case["attempts"]), calls=len(ncalls), expected=min(case["attempts"] + 1, 4))
        # ---- transaction counts from the double's log
        exp = 0
        for c in ex.calls:
            if not c["answered"] or c.get("memo_hit"):
                continue
            if c["kind"] == "PLACE":
                exp += len(c["instructions"])
            elif c["kind"] == "REPLACE":
                exp += len(c["instructions"]) + sum(1 for r in c["reports"] if r["cancelInstructionReport"]["status"] == "FAILURE")
            else:
                exp += sum(1 for r in c["reports"] if r["status"] == "FAILURE")
        out.rule("count")
        got = client.transaction_count_total
        if got != exp:
            out.v("transaction-count-differs", dict(tags, direction="over" if got > exp else "under"), got=got, expected=exp, case=case)
        # ---- attribution
        answered = [c for c in ncalls if c["answered"]]
        # every placement report is applied to the order whose instruction it answers
        if answered and kind == "PLACE":
            for o in orders:
                pr = o.responses.place_response
                out.rule("attribution")
                ref = getattr(getattr(pr, "instruction", None), "customer_order_ref", None)
                if pr is not None and ref is not None and ref != o.customer_order_ref:
                    out.v("report-applied-to-wrong-order", tags, order_ref=o.customer_order_ref, report_ref=ref, case=case)
        if answered and kind in ("CANCEL", "UPDATE"):
            for o in orders:
                resp = (o.responses.cancel_responses if kind == "CANCEL" else o.responses.update_responses)
                out.rule("attribution")
                if resp and str(resp[-1].instruction.bet_id) != str(o.bet_id):
                    out.v("report-applied-to-wrong-order", tags, order_bet=o.bet_id, report_bet=resp[-1].instruction.bet_id, case=case)
        if answered and kind == "REPLACE":
            for i, o in enumerate(orders):
                out.rule("attribution")
                reps = [x for x in o.trade.orders if x is not o]
                for rp in reps:
                    want = 5.0 + i
                    bet = ex.bets.get(str(rp.bet_id))
                    if rp.order_type.price != want or bet is None or bet["customerOrderRef"] != o.customer_order_ref:
                        out.v("replacement-attributed-to-wrong-order", tags, price=rp.order_type.price, want=want, case=case)
        # ---- after the latest snapshot the local view agrees with the exchange on completeness
        w.snapshot()
        for o in all_orders:
            bet = ex.bets.get(str(o.bet_id)) if o.bet_id else None
            if bet is None:
                continue
            out.rule("converged")
            if (bet["status"] == "EXECUTION_COMPLETE") != bool(o.complete):
                out.v("completeness-differs-after-snapshot", dict(tags, local=o.status.name), bet=bet, case=case)
        # ---- whatever is still live at the exchange trades on: orders reported complete locally do not move any more (C03 reads the samples)
        for o in all_orders:
            if o.status is not None:
                simrun.sample_order(tr, o, "cb", m)
        for b in list(ex.bets.values()):
            if b["sizeRemaining"] > 0:
                ex.fill(b["betId"], b["sizeRemaining"])
        w.snapshot()
        for o in all_orders:
            if o.status is not None:
                simrun.sample_order(tr, o, "cb", m)
        out.d("live:%s:%d:%s:%s:%s:%s:%s:%s" % (kind, n, case["out"], case["pre"], case.get("api_error"), case.get("attempts"), case.get("order"), case.get("omit")))
    finally:
        livecases.finish(w)
    return tr


# ------------------------------------------------------------------------------------------------
# simulation: post-state and counting per effect
# ------------------------------------------------------------------------------------------------

SCRIPT = {"n_orders": (3, 9), "p_cancel": 0.45, "p_update": 0.2, "p_replace": 0.4, "p_second_op": 0.5, "p_any_step": 0.2, "modes": ("cross", "at", "rest", "join", "join")}


def build_sim(desc):
    rng = simgen.mk_rng(desc["seed"], desc["idx"], 12)
    d = dict(desc)
    d["overrides"] = {"script_params": SCRIPT}
    case, snaps = _sim.build(d)
    if desc["idx"] % 3 != 0:
        # the same kind of request for several resting orders in one callback (one package of 2..3 instructions of that kind); any of
        # its orders - not just the last - may complete while the package is in flight (matched by the flow, lapsed at a suspension
        # or the turn in-play, voided with its runner)
        for si, s in enumerate(case["strategies"]):
            for g in range(rng.randint(1, 3)):
                m = rng.choice(list(snaps))
                sn = snaps[m]
                n_steps = len([x for x in sn if x["status"] != "CLOSED"])
                opens = [i for i, x in enumerate(sn) if x["status"] == "OPEN" and i + 1 < n_steps and any(r["status"] == "ACTIVE" for r in x["runners"].values())]
                if not opens:
                    continue
                at0 = rng.choice(opens)
                keys = [k for k, r in sn[at0]["runners"].items() if r["status"] == "ACTIVE"]
                grp = []
                for j in range(rng.randint(2, 3)):
                    key = rng.choice(keys)
                    side = rng.choice(("BACK", "LAY"))
                    ref = "g%d_%d_%d" % (si, g, j)
                    pa = {"m": m, "at": at0, "op": "place", "ref": ref, "trade": "T" + ref, "sel": [key[0], key[1]], "side": side, "otype": "LIMIT", "price": simgen.pick_price(rng, sn[at0]["runners"][key], side, rng.choice(("join", "join", "rest", "at"))), "size": rng.choice((2.0, 5.0, 20.0)), "persistence": rng.choice(("LAPSE", "LAPSE", "PERSIST"))}
                    grp.append(pa)
                    s["actions"].append(pa)
                at = min(n_steps - 1, at0 + rng.choice((1, 1, 2, 3)))
                op = rng.choice(("update", "update", "cancel", "replace"))
                for a in grp:
                    if op == "update":
                        s["actions"].append({"m": m, "at": at, "op": "update", "ref": a["ref"], "persistence": rng.choice([x for x in ("LAPSE", "PERSIST", "MARKET_ON_CLOSE") if x != a["persistence"]]), "follow": False})
                    elif op == "cancel":
                        s["actions"].append({"m": m, "at": at, "op": "cancel", "ref": a["ref"], "reduction": rng.choice((None, 1.0)), "follow": False})
                    else:
                        s["actions"].append({"m": m, "at": at, "op": "replace", "ref": a["ref"], "price": a["price"], "follow": False, "mv": None})
            s["actions"].sort(key=lambda a: a["at"])
    # batch the requests of one step into one transaction so that packages hold several orders
    for s in case["strategies"]:
        by_step = {}
        for a in s["actions"]:
            by_step.setdefault((a["m"], a["at"]), []).append(a)
        acts = []
        for (m, at), items in sorted(by_step.items(), key=lambda kv: kv[0][1]):
            if len(items) > 1 and rng.random() < 0.8:
                acts.append({"m": m, "at": at, "op": "batch", "items": items, "execute_after": []})
            else:
                acts += items
        s["actions"] = acts
    if desc["idx"] % 3 == 0:
        # requests wrapped in `with trade:` one of which is refused with an exception that leaves the block; transactions executed repeatedly
        simgen.usage_variants(case, snaps, simgen.mk_rng(desc["seed"], desc["idx"], 1212), p_trade_ctx_raise=0.4, p_hold=0.3)
    return case, snaps


def run_sim(desc, out):
    case, snaps = build_sim(desc)
    tr = simrun.run_case(case)
    O.abort_violation(tr, out)
    for e in tr.effects:
        out.rule("sim-effect")
        tags = {"kind": e["kind"], "exec": "Simulated", "n": min(len(e["orders"]), 3)}
        for o, post, tpost, pre in zip(e["orders"], e.get("post", []), e.get("tpost", []), e["pre"]):
            if pre == "VIOLATION":
                continue
            if post in O.INFLIGHT or post == "PENDING":
                out.v("order-left-in-flight", dict(tags, status=post, pre=pre), effect=e)
            if tpost == "PENDING":
                # (flumine deliberately leaves a trade PENDING when the strategy's own `with trade:` block raises; it is brought back
                # by the next execution that enters the trade block - judged only when this effect did)
                tk_ = tr.tkey(tr.orders[o].trade) if o in tr.orders else None
                entered = any(ev_["t"] == tk_ and e["seq"] < ev_["seq"] < e.get("end_seq", 10**12) for ev_ in tr.tstatus)
                if entered or tk_ not in getattr(tr, "own_exception_trades", ()):
                    out.v("trade-left-pending", tags, effect=e)
        # counting model (B6) from the responses observed inside this effect
        lo, hi = e["seq"], e.get("end_seq", 10**12)
        counted = [t for t in tr.txn if lo < t["seq"] < hi]
        got_ok = sum(t["count"] for t in counted if not t["failed"])
        got_failed = sum(t["count"] for t in counted if t["failed"])
        fails = sum(1 for r in tr.sim_responses if lo < r["seq"] < hi and r["status"] == "FAILURE" and r["kind"] in ("CANCEL", "UPDATE"))
        live_pre = [p for p in e["pre"] if p != "VIOLATION"]
        if e["kind"] == "PLACE":
            exp_ok = len(live_pre)
            exp_failed = 0
        elif e["kind"] == "REPLACE":
            exp_ok = sum(1 for p in live_pre if p != "EXECUTION_COMPLETE")
            exp_failed = fails
        else:
            exp_ok = 0
            exp_failed = fails
        out.rule("count")
        if "exc" not in e and (got_ok != exp_ok or got_failed != exp_failed):
            out.v("transaction-count-differs", dict(tags, direction="over" if got_ok + got_failed > exp_ok + exp_failed else "under"), got=(got_ok, got_failed), expected=(exp_ok, exp_failed), effect=e)
        out.d("sim:%s:%d:%s" % (e["kind"], min(len(e["orders"]), 3), ",".join(sorted(set(e["pre"])))))
    # a request handed to the simulated exchange is executed once its delay has passed (otherwise its orders stay in flight for ever)
    for p_ in O.unexecuted_packages(tr, case):
        out.v("order-left-in-flight", {"kind": p_["kind"], "exec": "Simulated", "n": min(len(p_["orders"]), 3), "pre": "never-executed", "status": "-"}, package={k: p_[k] for k in ("pid", "kind", "orders", "market", "tick")})
    # replacement orders carry the price requested for their own original
    want = {}
    for r in tr.requests:
        if r["kind"] == "REPLACE" and r.get("result"):
            want[r["o"]] = r["new_price"]
    for t, trade in tr.trades.items():
        for i, o in enumerate(trade.orders):
            if getattr(o, "_vf_replacement", False):
                out.rule("attribution")
                # the original is the order of the same trade completed by the replace just before this one was created
                cands = [tr.okey(x) for x in trade.orders[:i] if tr.okey(x) in want]
                if cands and o.order_type.price not in {want[c] for c in cands}:
                    out.v("replacement-attributed-to-wrong-order", {"kind": "REPLACE", "exec": "Simulated"}, price=o.order_type.price, requested={c: want[c] for c in cands})


def run_paper(case, out):
    from .. import paperwalk

    def observe(r, m, phase):
        if phase != "book":
            return
        # quiescent point: every queued call answered and one poll processed
        for o in m.blotter:
            out.rule("paper-quiescent")
            if o.status is not None and o.status.name in ("CANCELLING", "UPDATING", "REPLACING"):
                out.v("order-left-in-flight", {"kind": o.status.name, "exec": "Paper", "outcome": "-"}, order=r.tr.okey(o), remaining=o.size_remaining, matched=o.size_matched)
            if o.trade.status.name == "PENDING":
                out.v("trade-left-pending", {"exec": "Paper"}, order=r.tr.okey(o))

    r = paperwalk.walk(case, observe)
    out.c("rule_paper-call", r.tr.counters.get("paper_responses", 0))
    for pe in r.pool_errors:
        out.v("execution-call-raised", {"exec": "Paper", "call": pe["call"], "exc": pe["exc"], "where": pe["where"]}, error=pe)
    out.d("paper:%d:%d" % (min(len(r.orders), 12), len(r.mids)))
    out.c("paper_walks")


def run_wire(case, out):
    """Requests counted where they arrive: a local HTTP server (loopback) behind a real betfairlightweight.APIClient and the sessions the
    execution layer creates for itself.  Faults are HTTP 503 answers / connections closed without an answer on the first k arrivals."""
    from .. import wire, livecases, live
    from flumine import Flumine, clients as fclients
    import flumine.order.orderpackage as _op
    import time as _time

    try:
        wex = wire.WireExchange()
    except OSError as e:  # no loopback socket in this environment: nothing observed on the wire (counted, not judged)
        out.c("wire_unavailable")
        return
    st = livecases.make_strategy("W0")
    tr = simrun.Trace()
    simrun.attach(tr)
    saved_time = _op.time
    try:
        class _NoSleep:
            def __getattr__(s, k):
                return getattr(_time, k)

            @staticmethod
            def sleep(x):
                return None

        _op.time = _NoSleep()  # (the back-off between the library's own retries is not waited out)
        from flumine import config as fconfig

        fconfig.simulated = False
        client = fclients.BetfairClient(wire.api_client(wex), order_stream=False)
        fw = Flumine(client=client)
        client.account_details = None
        ex_ = live.ControlledExecutor()
        fw.betfair_execution._thread_pool = ex_

        class _S:
            stream_id = 7

        st.streams = [_S()]
        fw.strategies(st, fw.clients, fw)
        w = live.LiveWorld.__new__(live.LiveWorld)  # only for the market-file reader
        w.fw, w.gens, w.books, w.stream_id = fw, {}, {}, 7
        mid = w.add_market_file(livecases.static_market())
        w.next_book(mid)
        m = fw.markets.markets[mid]
        kind, k, how, n = case["kind"], case["attempts"], case["how"], case["n"]
        orders = [livecases.make_order(st, mid, sel=701 + (i % 3), side=("BACK", "LAY")[i % 2], price=3.0 + i, size=10.0) for i in range(n)]
        with m.transaction() as t:
            for o in orders:
                t.place_order(o)
        ex_.run_all()
        target = "placeOrders"
        if kind == "CANCEL":
            target = "cancelOrders"
        first = len(wex.requests)
        wex.fail = lambda req: (how if req["method"] == target and req["attempt"] <= k else None)
        if kind == "PLACE":
            orders = [livecases.make_order(st, mid, sel=701 + (i % 3), side=("BACK", "LAY")[i % 2], price=4.0 + i, size=5.0) for i in range(n)]
            with m.transaction() as t:
                for o in orders:
                    t.place_order(o)
        else:
            with m.transaction() as t:
                for o in orders:
                    t.cancel_order(o)
        ex_.run_all()
        arrived = [r for r in wex.requests[first:] if r["method"] == target]
        by_ref = {}
        for r in arrived:
            by_ref[r["customerRef"]] = by_ref.get(r["customerRef"], 0) + 1
        out.rule("wire")
        tags = {"kind": kind, "exec": "Betfair", "fault": how, "attempts": k, "wire": True}
        # one logical request (one package): at most 1 + 3 arrivals at the exchange, whatever reference each arrival carries
        if len(arrived) > 4:
            out.v("request-arrived-more-often-than-the-retry-limit", tags, arrivals=len(arrived), refs=by_ref)
        elif len(arrived) != min(k + 1, 4):
            out.v("retry-count-differs", dict(tags, api_error=how, pre="none"), calls=len(arrived), expected=min(k + 1, 4))
        for o in orders:
            if o.status.name in ("CANCELLING", "UPDATING", "REPLACING") or o.trade.status.name == "PENDING":
                out.v("order-left-in-flight", dict(tags, status=o.status.name, pre="-"), order=o.id)
        out.d("wire:%s:%s:%d:%d" % (kind, how, k, n))
    finally:
        _op.time = saved_time
        simrun.detach()
        try:
            fw.betfair_execution._thread_pool = None
        except Exception:  # noqa: BLE001
            pass
        wex.close()


def run(case):
    out = O.Out(PROPERTY)
    if case["mode"] == "wire":
        run_wire(case, out)
        return out.result()
    if case["mode"] == "live":
        run_live(case, out)
    elif case["mode"] == "paper":
        run_paper(case, out)
    else:
        run_sim(case, out)
    return out.result(sample={"plan": case} if case.get("mode") == "live" and case.get("n") == 2 and case.get("out") == [1, 0] else None)
