"""C06 - passive liquidity is never double counted; queue position is honoured."""
from .. import oracles as O
from .. import simrun, simgen
from .. import marketgen as G
from . import _sim

PROPERTY = "C06"
LEVEL = "exploration"
DISTINCT_RULE = (
    "cases = seeded traded-volume sequences (several levels per update, repeated/unchanged ladders) x 1-6 resting orders per strategy x 1-3 strategies x isolation on/off; "
    "distinct = (side, lone?, queue ahead?, filled?, #passive fragments<=3) per resting order and (#orders filled, #traded prices, isolation) per update with fills"
)
RULES = ["passive-fragment", "order-update", "lone-equality", "aggregate", "priority"]
MINIMA = {"quick": {"rule_order-update": 20000, "rule_lone-equality": 4000, "rule_aggregate": 1500, "rule_passive-fragment": 2000, "rule_priority": 30}, "thorough": {"rule_order-update": 800000}}
ASSUMPTIONS = [
    "traded ledger = positive deltas of cumulative trd per runner and price, read from the raw file lines",
    "simulation_available_prices is False (the documented double-counting mode is excluded)",
    "which eligible price an order consumes first is the code's choice: bounds and max-flow feasibility are checked, not equality with a re-implementation",
]
MARKET = {"n_runners": (2, 3), "n_pre": (10, 28), "p_inplay": 0.2, "p_trade": 0.85, "p_book_change": 0.5, "depth": (1, 4), "p_suspend_reopen": 0.15, "repeat_unchanged": 0.15, "p_removal": 0.0, "sizes": (0.5, 2, 5, 12.34, 40)}
SCRIPT = {"n_orders": (1, 7), "types": ("LIMIT",), "modes": ("rest", "rest", "join", "join", "at", "far"), "p_cancel": 0.15, "p_replace": 0.1, "p_update": 0.1, "p_fok": 0.0, "persistence": None, "p_any_step": 0.0, "sizes": (1.0, 2.0, 5.0, 10.0, 25.5, 100.0), "p_same_trade": 0.0}


def plan(tier, seed):
    n = 7000 if tier == "quick" else 80000
    return [{"seed": seed, "idx": i} for i in range(n)]


def build(desc):
    rng = simgen.mk_rng(desc["seed"], desc["idx"], 6)
    lone = desc["idx"] % 3 == 0
    sp = dict(SCRIPT)
    if lone:
        sp["n_orders"] = (1, 1)
    mp = MARKET
    if desc["idx"] % 5 == 4:
        # priority workload: one traded price per update, several same-side orders behind the book (no queue ahead)
        mp = dict(MARKET, trade_levels=(1,), n_runners=(2, 2))
        sp.update(n_orders=(2, 5), sides=(rng.choice(("BACK", "LAY")),), modes=("rest", "far", "rest"), p_cancel=0.0, p_replace=0.0, sizes=(2.0, 5.0, 25.5, 100.0))
    if desc["idx"] % 7 == 6:
        # handicap market: one selection on several lines (each line has its own ladder and queue)
        mp = dict(mp, handicaps="lines", n_runners=(2, 4))
    case, snaps = simgen.gen_case(desc["seed"], desc["idx"], market_params=mp, script_params=sp, n_strategies=(1, 1) if lone else (1, 3), salt=6)
    case["config"] = {"simulated_strategy_isolation": rng.random() < 0.7}
    if desc["idx"] % 4 == 1 and not lone:
        # a strategy's orders go through two or three clients with different settings: the traded volume is still shared
        ncl = rng.choice((2, 3))
        case["clients"] = [{"username": "sim%d" % i, "commission": (0.05, 0.02, 0.0)[i]} for i in range(ncl)]
        for st in case["strategies"]:
            for a in st["actions"]:
                if a["op"] == "place":
                    a["client"] = rng.randrange(ncl)
    return case, snaps


def run(desc):
    case, snaps = build(desc)
    tr = simrun.run_case(case)
    out = O.Out(PROPERTY)
    O.abort_violation(tr, out)
    O.c06_passive(tr, out, snaps, case)
    return out.result(sample=_sim.sample_of(case, tr) if desc["idx"] < 2 else None)
