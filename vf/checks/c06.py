"""C06 - passive liquidity is never double counted; queue position is honoured."""
from .. import oracles as O
from .. import simrun, simgen
from .. import marketgen as G
from . import _sim

PROPERTY = "C06"
LEVEL = "exploration"
DISTINCT_RULE = (
    "cases = seeded traded-volume sequences (several levels per update, repeated/unchanged ladders) x 1-6 resting orders per strategy x 1-3 strategies x isolation on/off; "
    "distinct = (side, lone?, queue ahead?, filled?, #passive fragments<=3) per resting order and (#orders filled, #traded prices, isolation) per update with fills"
)
RULES = ["passive-fragment", "order-update", "lone-equality", "aggregate", "priority", "book-vs-file"]
MINIMA = {"quick": {"rule_order-update": 20000, "rule_lone-equality": 4000, "rule_aggregate": 1500, "rule_passive-fragment": 2000, "rule_priority": 30}, "thorough": {"rule_order-update": 800000}}
ASSUMPTIONS = [
    "traded ledger = positive deltas of cumulative trd per runner and price, read from the raw file lines",
    "simulation_available_prices is False (the documented double-counting mode is excluded)",
    "which eligible price an order consumes first is the code's choice: bounds and max-flow feasibility are checked, not equality with a re-implementation",
]
MARKET = {"n_runners": (2, 3), "n_pre": (10, 28), "p_inplay": 0.2, "p_trade": 0.85, "p_book_change": 0.5, "depth": (1, 4), "p_suspend_reopen": 0.15, "repeat_unchanged": 0.15, "p_removal": 0.0, "sizes": (0.5, 2, 5, 12.34, 40)}
SCRIPT = {"n_orders": (1, 7), "types": ("LIMIT",), "modes": ("rest", "rest", "join", "join", "at", "far"), "p_cancel": 0.15, "p_replace": 0.1, "p_update": 0.1, "p_fok": 0.0, "persistence": None, "p_any_step": 0.0, "sizes": (1.0, 2.0, 5.0, 10.0, 25.5, 100.0), "p_same_trade": 0.0}


def plan(tier, seed):
    n = 7000 if tier == "quick" else 80000
    return [{"seed": seed, "idx": i} for i in range(n)]


def build(desc):
    rng = simgen.mk_rng(desc["seed"], desc["idx"], 6)
    lone = desc["idx"] % 3 == 0
    sp = dict(SCRIPT)
    if lone:
        sp["n_orders"] = (1, 1)
    mp = MARKET
    if desc["idx"] % 5 == 4:
        # priority workload: one traded price per update, several same-side orders behind the book (no queue ahead)
        mp = dict(MARKET, trade_levels=(1,), n_runners=(2, 2))
        sp.update(n_orders=(2, 5), sides=(rng.choice(("BACK", "LAY")),), modes=("rest", "far", "rest"), p_cancel=0.0, p_replace=0.0, sizes=(2.0, 5.0, 25.5, 100.0))
    if desc["idx"] % 7 == 6:
        # handicap market: one selection on several lines (each line has its own ladder and queue)
        mp = dict(mp, handicaps="lines", n_runners=(2, 4))
    # every 6th case: the strategy trades two or three markets one after the other in one run (what it did in an earlier market has no
    # bearing on its fills in a later one)
    nmk = (2, 3) if desc["idx"] % 6 == 1 else (1, 1)
    filt = desc["idx"] % 8 == 5
    if filt:
        # a listener filter skips part of the recording (ladders left standing at suspensions, only some runners move per update): a
        # resting order is still filled only by what the FILE shows as traded after it arrived
        mp = dict(mp, p_keep_books=0.7, p_inplay=1.0, p_book_change=0.35, n_inplay=(5, 12), p_suspend_reopen=0.6)
        nmk = (1, 1)
    case, snaps = simgen.gen_case(desc["seed"], desc["idx"], market_params=mp, script_params=sp, n_strategies=(1, 1) if lone else (1, 3), n_markets=nmk, salt=6)
    case["config"] = {"simulated_strategy_isolation": rng.random() < 0.7}
    if desc["idx"] % 9 == 4:
        case["middleware_first"] = True  # a user subclass of the simulation middleware, registered before the clients
    if filt:
        case["listener_kwargs"] = dict(({"inplay": True}, {"seconds_to_start": 560}, {"inplay": True}, {"max_inplay_seconds": 4})[(desc["idx"] // 8) % 4])
    if desc["idx"] % 5 == 2:
        # explicit transactions executed more than once / kept open across updates (a request must still reach the exchange once)
        simgen.usage_variants(case, snaps, simgen.mk_rng(desc["seed"], desc["idx"], 606), p_batch=0.7, p_hold=0.5)
    if desc["idx"] % 11 == 7 and not lone and not filt:
        # the same file delivered by two streams of one event group (a second strategy with its own listener filter): every traded
        # amount still exists once
        case["event_processing"] = True
        case["strategies"].append({"name": "W", "actions": [], "listener_kwargs": {"seconds_to_start": 36000}})
    if desc["idx"] % 4 == 1 and not lone:
        # a strategy's orders go through two or three clients with different settings: the traded volume is still shared
        ncl = rng.choice((2, 3))
        case["clients"] = [{"username": "sim%d" % i, "commission": (0.05, 0.02, 0.0)[i]} for i in range(ncl)]
        for st in case["strategies"]:
            for a in st["actions"]:
                if a["op"] == "place":
                    a["client"] = rng.randrange(ncl)
    return case, snaps


def two_stream_bound(tr, out, snaps):
    """The file reaches the framework through two streams (every update is processed twice): per resting order the passive fills are
    still bounded by what traded in the FILE after it arrived, at prices that can match it, halved, less the queue it joined."""
    deltas = {m: O.traded_deltas(sn) for m, sn in snaps.items()}
    passive = {}
    for f in tr.fragments:
        if f["caller"] == "_calculate_process_traded":
            passive[f["o"]] = passive.get(f["o"], 0.0) + f["frag"][2]
    for p in tr.placements:
        if p["otype"] != "LIMIT" or p.get("resp_status") != "SUCCESS" or p["o"] not in tr.orders:
            continue
        o = tr.orders[p["o"]]
        m, sel = o.market_id, (o.selection_id, o.handicap)
        pt = tr.ticks[p["tick"]]["pt"] if 0 <= p["tick"] < len(tr.ticks) else None
        if pt is None or m not in snaps:
            continue
        side, price = p["side"], p["price"]
        queue = next((sz for pr, sz in (p["atl"] if side == "BACK" else p["atb"]) or () if pr == price), 0.0)
        elig = 0.0
        for i, sn in enumerate(snaps[m]):
            if sn["pt"] >= pt:  # the update at which it arrived counts too (its trades are applied after the arrival)
                for q, v in deltas[m][i].get(sel, {}).items():
                    if (q >= price - 1e-9) if side == "BACK" else (q <= price + 1e-9):
                        elig += v
        out.rule("aggregate")
        got = passive.get(p["o"], 0.0)
        if got > max(0.0, elig / 2.0) + 0.011:
            out.v("fill-exceeds-eligible-volume-after-queue", {"isolation": True, "lone": True, "side": side, "two_streams": True}, order=p["o"], filled=got, eligible_traded=elig, queue_at_arrival=queue)
    out.c("two_stream_cases")


def run(desc):
    case, snaps = build(desc)
    tr = simrun.run_case(case)
    out = O.Out(PROPERTY)
    O.abort_violation(tr, out)
    if any(s_["name"] == "W" for s_ in case["strategies"]):
        two_stream_bound(tr, out, snaps)
        return out.result()
    tr.listener_filters = tuple(case.get("listener_kwargs") or ())
    O.book_at_arrival_matches_file(tr, out, snaps)
    O.c06_passive(tr, out, snaps, case)
    return out.result(sample=_sim.sample_of(case, tr) if desc["idx"] < 2 else None)
