"""C08 - settlement: simulated profit follows the exchange's rules."""
from .. import oracles as O
from .. import simrun, simgen
from .. import marketgen as G
from .. import ladder as L

PROPERTY = "C08"
LEVEL = "exploration"
DISTINCT_RULE = (
    "cases = seeded markets (WIN with 1-3 dead-heating winners, PLACE, EACH_WAY, LINE) closed with every result class, orders filled by real "
    "matching (aggressive multi-level, passive, SP, reduced after removals) or full-match twins; distinct = (market type, runner result, order type, side, "
    "dead-heat k, #fragments<=3) cells compared with the first-principles settlement calculator"
)
RULES = ["order-profit", "avg-price", "twin", "cleared-market", "paper-cleared-market", "paper-order-profit", "reduced-fill", "book-current"]
MINIMA = {"quick": {"rule_order-profit": 4000, "rule_twin": 300, "rule_cleared-market": 1000, "rule_paper-cleared-market": 200, "paper_polls_with_two_markets": 100}, "thorough": {"rule_order-profit": 150000}}
ASSUMPTIONS = [
    "settlement rules as stated in the property (win/lose, removed = 0, one-winner dead heat, each-way terms, even-money lines)",
    "tolerance 0.005*matched*(1+1/d)+0.01 because flumine settles on a 2-dp average price",
]
KINDS = ["win", "win", "win", "place", "eachway", "eachway", "twin", "line", "win_removal", "sp_removal"]


def plan(tier, seed):
    n = 6000 if tier == "quick" else 70000
    # directed case for the listed finding C08-line-tie (struck line == result, both sides on one fill)
    # ... and for C08-line-struck-at-zero (a bet struck at the line 0.0)
    paper = [{"seed": seed, "idx": i, "kind": "paper"} for i in range(150 if tier == "quick" else 2500)]
    # ... and for C08-sp-lay-resized-after-late-withdrawal
    return [{"seed": seed, "idx": 0, "kind": "line", "force_tie": True}, {"seed": seed, "idx": 1, "kind": "line", "force_zero": True}, {"seed": seed, "idx": 2, "kind": "sp_removal", "force_moc_lay": True}] + [{"seed": seed, "idx": i, "kind": KINDS[i % len(KINDS)]} for i in range(3, n)] + paper


def _clients(rng):
    n = rng.choice((1, 1, 2, 3))
    return [{"username": "sim%d" % i, "commission": rng.choice((0.0, 0.02, 0.05, 0.065))} for i in range(n)]


def build(desc):
    rng = simgen.mk_rng(desc["seed"], desc["idx"], 8)
    kind = desc["kind"]
    mid = "1.2%08d" % rng.randint(0, 99999)
    clients = _clients(rng)
    case = {"seed": desc["seed"], "idx": desc["idx"], "clients": clients}
    if kind == "line":
        lo, hi, iv = rng.choice(((0.5, 100.5, 1.0), (1.0, 60.0, 1.0), (0.0, 60.0, 1.0), (0.5, 20.5, 0.5)))
        if desc.get("force_zero"):
            lo, hi, iv = 0.0, 60.0, 1.0
        mf = G.MarketFile(mid, [(5000, 0, None)], market_type="TOTAL_POINTS_LINE", betting_type="LINE", ladder="LINE_RANGE", line=(lo, hi, iv), bsp=False)
        prices = L.line_prices(lo, hi, iv)
        mid_i = rng.randrange(2, len(prices) - 2)
        t = G.T0
        for i in range(rng.randint(3, 6)):
            t += 500
            mf.emit(t, rc={(5000, 0): {"atb": {prices[mid_i - 1]: 20.0}, "atl": {prices[mid_i + 1]: 20.0}}})
        t += 500
        mf.emit(t, md_changes={"status": "SUSPENDED"})
        t += 500
        mf.emit(t, md_changes={"status": "CLOSED"}, runner_md={(5000, 0): {"status": "WINNER"}})
        info = {"marketUnit": "points", "interval": iv, "minUnitValue": lo, "maxUnitValue": hi}
        actions = []
        struck = []
        for j in range(rng.randint(1, 4)):
            pr = prices[max(0, min(len(prices) - 1, mid_i + rng.randint(-2, 2)))]
            if desc.get("force_zero"):
                pr = 0.0
            sz = rng.choice((2.0, 5.0, 3.33))
            struck.append(pr)
            for side in ("BACK", "LAY") if desc.get("force_tie") else rng.choice((("BACK", "LAY"), ("BACK",), ("LAY",))):
                actions.append({"m": mid, "at": 0, "op": "place", "ref": "l%d%s" % (j, side), "sel": [5000, 0], "side": side, "price": pr, "size": sz, "ladder": "LINE_RANGE", "line_info": info})
        res = struck[0] if desc.get("force_tie") else 3.0 if desc.get("force_zero") else rng.choice((struck[0], struck[0] + iv, struck[0] - iv, prices[0], prices[-1], None))
        case["line_results"] = {mid: res} if res is not None else {}
        for c in clients:
            c["full_match"] = True
        case["markets"] = [{"id": mid, "text": mf.text()}]
        case["strategies"] = [{"name": "S0", "actions": actions}]
        return case, {mid: G.read_lines(mf.lines)}
    mt = {"win": "WIN", "win_removal": "WIN", "sp_removal": "WIN", "twin": "WIN", "place": "PLACE", "eachway": "EACH_WAY"}[kind]
    # one-winner markets are not all called WIN (golf round leader, match odds, ...): the dead-heat rule is the same
    mt_file = rng.choice(("WIN", "WIN", "MATCH_ODDS", "ROUND_LEADER", "TOURNAMENT_WINNER", "TOP_BATSMAN")) if mt == "WIN" else mt
    params = {
        "market_types": (mt_file,),
        "winners": (1,) if mt != "PLACE" else (2, 3),
        "n_runners": (3, 6),
        "close": False,
        "p_removal": 0.6 if kind == "win_removal" else 0.1,
        "p_inplay": 0.5,
        "depth": (2, 5),
        "p_bsp": 0.9,
        "handicaps": "lines" if (mt == "WIN" and kind == "win" and rng.random() < 0.3) else False,
    }
    if kind == "sp_removal":
        # a late withdrawal: the runner is removed after the off (starting prices already reconciled); bets matched at the starting
        # price on the other runners are paid at the reduced price like any other fill
        mt_file = "WIN"
        params.update(market_types=("WIN",), p_inplay=1.0, p_bsp=1.0, p_removal=0.0, n_runners=(4, 6), n_inplay=(1, 3), handicaps=False)
    d = G.Director(rng, mid, params)
    mf = d.run()
    if kind == "sp_removal" and len(d.active_keys()) > 2:
        d.remove_runner(rng.choice(d.active_keys()), factor=rng.choice((2.5, 12.0, 30.0, 64.0)), with_suspend=rng.random() < 0.3)
        if mf.md["status"] == "SUSPENDED":
            d.reopen()
        for _ in range(rng.randint(1, 3)):
            d.open_tick()
    act = d.active_keys()
    rng.shuffle(act)
    if mt == "WIN":
        k = rng.choice((1, 1, 1, 2, 3))
        statuses = {key: ("WINNER" if i < k else "LOSER") for i, key in enumerate(act)}
    elif mt == "PLACE":
        nw = mf.md["numberOfWinners"]
        statuses = {key: ("WINNER" if i < nw else "LOSER") for i, key in enumerate(act)}
    else:
        npl = rng.randint(0, max(0, len(act) - 2))
        statuses = {key: ("WINNER" if i == 0 else ("PLACED" if i <= npl else "LOSER")) for i, key in enumerate(act)}
    d.close(statuses=statuses, repeat=1 if rng.random() < 0.1 else 0)
    snaps = G.read_lines(mf.lines)
    if kind == "twin":
        case["config"] = {"place_latency": 0.0}
        for c in clients:
            c["full_match"] = True
        actions = []
        open_steps = [i for i, s in enumerate(snaps) if s["status"] == "OPEN"]
        for j in range(rng.randint(1, 4)):
            at = rng.choice(open_steps)
            keys = [k_ for k_, r in snaps[at]["runners"].items() if r["status"] == "ACTIVE"]
            key = rng.choice(keys)
            # a price strictly inside the spread crosses on neither side, so both orders get the same fills
            book = snaps[at]["runners"][key]
            bb = max(book["atb"]) if book["atb"] else 1.01
            bl = min(book["atl"]) if book["atl"] else 1000
            inside = [p_ for p_ in L.CLASSIC if bb < p_ < bl]
            pr = rng.choice(inside) if inside else L.CLASSIC[rng.randint(5, 250)]
            sz = rng.choice((2.0, 5.0, 7.77))
            for side in ("BACK", "LAY"):
                actions.append({"m": mid, "at": at, "op": "place", "ref": "tw%d%s" % (j, side), "sel": list(key), "side": side, "price": pr, "size": sz})
    else:
        sp = {"n_orders": (3, 9), "modes": ("cross", "cross", "cross", "at", "join", "rest"), "p_cancel": 0.1, "p_update": 0.05, "p_replace": 0.1, "sizes": (2.0, 2.37, 5.0, 10.0, 25.5), "p_any_step": 0.0}
        if kind == "sp_removal":
            sp.update(types=("LIMIT", "LOC", "MOC", "MOC"), n_orders=(4, 9))
        actions = simgen.gen_script(rng, snaps, mid, "S0", sp)
        if desc.get("force_moc_lay"):
            actions.insert(0, {"m": mid, "at": 0, "op": "place", "ref": "fml", "sel": list(act[0]), "side": "LAY", "otype": "MOC", "liability": 10.0})
    for a in actions:
        if a["op"] == "place":
            a["client"] = rng.randrange(len(clients))
    case["markets"] = [{"id": mid, "text": mf.text()}]
    case["strategies"] = [{"name": "S0", "actions": actions}]
    return case, {mid: snaps}


def run_paper(desc):
    """Paper trading: an un-run live Flumine with paper_trade clients holding orders in several open markets at once; the
    client's simulated order stream polls between updates (its loop body is executed by the harness instead of its thread);
    markets close in a random order and every cleared summary must equal the first-principles sum over that client's
    matched orders in that market."""
    import collections
    from .. import livecases
    from flumine.events.events import CloseMarketEvent, CurrentOrdersEvent
    from flumine.streams.simulatedorderstream import SimulatedOrderStream, CurrentOrders

    rng = simgen.mk_rng(desc["seed"], desc["idx"], 88)
    out = O.Out(PROPERTY)
    nc = rng.choice((1, 1, 2))
    rates = [rng.choice((0.0, 0.02, 0.05, 0.065)) for _ in range(nc)]
    st = livecases.make_strategy("P0")
    tr, w = livecases.new_world([st], n_clients=nc, paper=True, commissions=rates, usernames=["paper%d" % i for i in range(nc)])
    try:
        streams = [SimulatedOrderStream(w.fw, stream_id=900 + i, streaming_timeout=0.25, client=c) for i, c in enumerate(w.clients)]
        nm = rng.randint(2, 4)
        snaps, lines_read, mids = {}, {}, []
        for j in range(nm):
            mid = "1.28%07d" % (desc["idx"] * 10 + j)
            d = G.Director(rng, mid, {"market_types": ("WIN",), "winners": (1,), "n_runners": (2, 4), "close": False, "p_removal": 0.0, "p_inplay": 0.3, "depth": (2, 3), "p_bsp": 0.0, "n_pre": (4, 10), "n_inplay": (0, 5)})
            mf = d.run()
            act = d.active_keys()
            rng.shuffle(act)
            k = rng.choice((1, 1, 2))
            d.close(statuses={key: ("WINNER" if i < k else "LOSER") for i, key in enumerate(act)})
            snaps[mid] = G.read_lines(mf.lines)
            lines_read[mid] = -1
            w.add_market_file(mf.write(livecases.tmpdir()))
            mids.append(mid)
        orders = []  # (order, market, client index)
        closed = []
        open_mids = list(mids)

        def drain():
            while not w.fw.handler_queue.empty():
                ev = w.fw.handler_queue.get()
                if isinstance(ev, CloseMarketEvent):
                    w.fw._process_close_market(ev)
                    closed.append(ev.event.market_id)
                elif isinstance(ev, CurrentOrdersEvent):
                    w.fw._process_current_orders(ev)

        def poll():
            # body of SimulatedOrderStream.run's loop
            for s_ in streams:
                if w.fw.markets.live_orders:
                    cur = s_._get_current_orders()
                    if cur:
                        w.fw.handler_queue.put(CurrentOrdersEvent([CurrentOrders(cur, s_.client)]))
            live_markets = sum(1 for m_ in w.fw.markets if not m_.closed and m_.blotter.has_live_orders)
            if live_markets >= 2:
                out.c("paper_polls_with_two_markets")
            drain()

        # first, every market gets its first book; then random interleaving
        sequence = list(mids)
        while open_mids:
            mid = sequence.pop(0) if sequence else rng.choice(open_mids)
            mb = w.next_book(mid)
            if mb is None:
                open_mids.remove(mid)
                continue
            lines_read[mid] += 1
            drain()
            snap = snaps[mid][lines_read[mid]]
            if snap["status"] == "OPEN" and rng.random() < 0.6 and w.market(mid) is not None:
                keys = [k_ for k_, r in snap["runners"].items() if r["status"] == "ACTIVE" and r["atb"] and r["atl"]]
                if keys:
                    key = rng.choice(keys)
                    book = snap["runners"][key]
                    side = rng.choice(("BACK", "LAY"))
                    mode = rng.choice(("cross", "cross", "rest"))
                    if side == "BACK":
                        pr = max(book["atb"]) if mode == "cross" else min(book["atl"])
                    else:
                        pr = min(book["atl"]) if mode == "cross" else max(book["atb"])
                    ci = rng.randrange(nc)
                    o = livecases.make_order(st, mid, sel=key[0], handicap=key[1], side=side, price=pr, size=rng.choice((2.0, 5.0, 12.5)), persistence=rng.choice(("PERSIST", "LAPSE")))
                    w.market(mid).place_order(o, client=w.clients[ci])
                    orders.append((o, mid, ci))
                    if rng.random() < 0.35:
                        # while the placement sleeps its latency on the pool thread the main loop processes the market's next update
                        # (possibly the closing one, settlement included)
                        def during_sleep(secs, mid=mid):
                            mb_ = w.next_book(mid)
                            if mb_ is None:
                                if mid in open_mids:
                                    open_mids.remove(mid)
                                return
                            lines_read[mid] += 1
                            drain()

                        w.on_sleep = during_sleep
                    w.executor.run_all()
                    w.on_sleep = None
            for _ in range(rng.choice((0, 1, 1, 2))):
                poll()
        poll()
        # oracle
        closing = {m_: next(s_ for s_ in sn if s_["status"] == "CLOSED") for m_, sn in snaps.items()}
        exp = collections.defaultdict(list)
        for o, mid, ci in orders:
            frags = [(f[1], f[2]) if len(f) > 2 else tuple(f) for f in o.simulated.matched]
            snap = closing[mid]
            rs = snap["runners"][(o.selection_id, o.handicap)]["status"]
            n_win = sum(1 for r in snap["runners"].values() if r["status"] == "WINNER")
            kdh = n_win if n_win > (snap["number_of_winners"] or 1) else 1
            e = sum(O.settle_fragment(o.side, p_, s_, rs, "WIN", kdh, 1) for p_, s_ in frags)
            matched = sum(s_ for _, s_ in frags)
            out.rule("paper-order-profit")
            if abs(o.profit - e) > 0.005 * matched + 0.01:
                out.v("profit-differs-from-settlement", {"market_type": "WIN", "result": rs, "otype": "LIMIT", "side": o.side, "dead_heat": kdh > 1, "paper": True}, order=o.id, profit=o.profit, expected=e, fills=frags)
            if matched > 0:
                exp[(mid, ci)].append(o.profit)
            out.d("c08:paper:%s:%s:%d:%d" % (rs, o.side, kdh, min(len(frags), 3)))
        per_market = collections.defaultdict(list)
        for ev in tr.logs:
            if ev["type"] == "CLEARED_MARKETS":
                for pl in ev.get("payload") or ():
                    per_market[pl["market_id"]].append(pl)
        for mid in mids:
            evs = per_market.get(mid, [])
            if len(evs) != nc:
                out.v("cleared-summary-count-differs", {"paper": True}, market=mid, got=len(evs), clients=nc)
                continue
            for ci, pl in enumerate(evs):
                out.rule("paper-cleared-market")
                ep = round(sum(exp.get((mid, ci), [])), 2)
                ec = round(max(ep * rates[ci], 0), 2)
                if abs(pl["profit"] - ep) > 0.0051 or pl["bet_count"] != len(exp.get((mid, ci), [])):
                    out.v("cleared-summary-differs", {"field": "profit/bet_count", "paper": True}, market=mid, client=ci, payload=pl, expected_profit=ep, expected_count=len(exp.get((mid, ci), [])))
                if abs(pl["commission"] - ec) > 0.0051 or pl["commission"] < 0:
                    out.v("cleared-summary-differs", {"field": "commission", "paper": True}, market=mid, client=ci, payload=pl, expected=ec)
        O.book_at_arrival_is_current(tr, out, {"paper": True})
        out.c("paper_orders", len(orders))
        out.c("paper_matched_orders", sum(1 for o, _, _ in orders if o.size_matched > 0))
    finally:
        livecases.finish(w)
    return out.result(sample={"desc": desc, "orders": len(orders), "markets": nm, "clients": nc} if desc["idx"] < 2 else None)


def run(desc):
    if desc["kind"] == "paper":
        return run_paper(desc)
    case, snaps = build(desc)
    tr = simrun.run_case(case)
    out = O.Out(PROPERTY)
    O.abort_violation(tr, out)
    O.c08_settlement(tr, out, snaps, case)
    if desc["kind"] in ("win_removal", "sp_removal"):
        # the fills that are settled are the exchange's: after a non-runner they carry the reduced price (C09's oracle re-states the
        # reduction from the raw file; a fill left unreduced would otherwise be settled "consistently" at the wrong price)
        out9 = O.Out("C09")
        O.c09_removals(tr, out9, snaps, case, O.root_causes(tr))
        for v in out9.violations:
            if v["rule"] in ("matched-price-not-reduced-as-stated", "matched-price-changed-without-removal", "average-price-not-that-of-reduced-fills"):
                out.v("settled-fill-not-at-reduced-price", dict(v["tags"], c09_rule=v["rule"]), **{k: v_ for k, v_ in v.get("detail", {}).items() if k in ("order", "expected", "factors")})
        out.c("rule_reduced-fill", out9.counters.get("rule_reduction", 0))
    from . import _sim

    return out.result(sample=_sim.sample_of(case, tr) if desc["idx"] < 2 else None)
