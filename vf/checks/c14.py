"""C14 - simulation is deterministic, complete and chronological."""
import os
import sys
import json
import tempfile
import subprocess
import datetime as _dt

from .. import oracles as O
from .. import simrun, simgen
from .. import marketgen as G
from . import _sim

PROPERTY = "C14"
LEVEL = "exploration"
DISTINCT_RULE = (
    "scenarios = 1-4 market files (equal/unequal lengths, identical publish times across markets, several events and event groups), event_processing on/off, listener "
    "filters; each determinism scenario is run in fresh processes with different PYTHONHASHSEED and wall-clock shifts; delivery is compared with a predictor that re-states the "
    "listener filters over the raw lines; distinct = (files, event_processing, filter set, groups) shapes"
)
RULES = ["determinism", "delivery", "chronology", "clock", "clock-restored"]
MINIMA = {"quick": {"rule_determinism": 40, "rule_delivery": 500, "rule_chronology": 100, "rule_clock": 8000, "rule_clock-restored": 500}, "thorough": {"rule_determinism": 1500}}
ASSUMPTIONS = ["delivery predictor B5 (status != OPEN always delivered; inplay / seconds_to_start / max_inplay_seconds as documented)", "fresh processes: PYTHONHASHSEED in {0,1,random}, wall clock shifted by years, local time zones UTC / New York / Tokyo / Auckland"]
WATCHDOG = {"quick": 900, "thorough": 5400}
FILTERS = [
    {},
    {"inplay": True},
    {"inplay": False},
    {"seconds_to_start": 30},
    {"seconds_to_start": 600},
    {"max_inplay_seconds": 2},
    {"inplay": True, "max_inplay_seconds": 5},
    {"seconds_to_start": 120, "max_inplay_seconds": 1},
    # boundary values: with 1 s spacing and market times a few seconds out, updates land exactly on the thresholds
    {"seconds_to_start": 2},
    {"seconds_to_start": 3},
    {"seconds_to_start": 5, "max_inplay_seconds": 3},
    {"max_inplay_seconds": 1},
]


def plan(tier, seed):
    n = 2000 if tier == "quick" else 30000
    cases = [{"mode": "delivery", "seed": seed, "idx": i} for i in range(n)]
    d = 64 if tier == "quick" else 1600
    cases += [{"mode": "determinism", "seed": seed, "idx": i, "runs": 3 if tier == "quick" else 4} for i in range(d)]
    cases += [{"mode": "sports", "seed": seed, "idx": i} for i in range(150 if tier == "quick" else 3000)]
    return cases


def build(desc):
    rng = simgen.mk_rng(desc["seed"], desc["idx"], 14)
    nm = rng.choice((1, 2, 2, 3, 4))
    ev_proc = rng.random() < 0.6
    n_events = rng.choice((1, 1, 2))
    same_times = rng.random() < 0.3
    boundary = rng.random() < 0.4
    markets, snaps = [], {}
    base = rng.randint(0, 9000) * 10
    for m in range(nm):
        mid = "1.2%08d" % (base + m)
        ev = "3000000%d" % (m % n_events)
        mp = {
            "p_inplay": 0.7,
            "n_pre": (3, 12),
            "n_inplay": (0, 8),
            "p_suspend_reopen": 0.3,
            "spacing_ms": (1000,) if (same_times or boundary) else (1, 40, 250, 1000, 5000, 30000),
            "p_removal": 0.1,
            "market_time_offsets": (4_000, 6_000, 9_000, 30_000) if boundary else (30_000, 600_000),
            # the off time is moved mid-file by a definition delta: seconds_to_start is measured against the current definition
            # a recording may end before the market closes (and then yield nothing at all under a filter)
            "close": rng.random() > 0.15,
            "p_same_pt": rng.choice((0.0, 0.0, 0.1)),
            "p_reschedule": 0.35,
            "reschedule_ms": (-3_000, -1_000, 2_000, 4_000) if boundary else (-20_000, -5_000, 5_000, 60_000, 500_000),
        }
        d = G.Director(rng, mid, mp, event_id=ev, t0=G.T0 + (0 if (ev_proc or same_times) else m * 3_600_000))
        mf = d.run()
        markets.append({"id": mid, "text": mf.text()})
        snaps[mid] = G.read_lines(mf.lines)
    strategies = []
    for s in range(rng.choice((1, 2))):
        actions = []
        for mid, sn in snaps.items():
            actions += simgen.gen_script(rng, sn, mid, "S%d" % s, {"n_orders": (1, 5)}, ref_prefix="m%s_" % mid[-2:])
        strategies.append({"name": "S%d" % s, "actions": actions})
    case = {"seed": desc["seed"], "idx": desc["idx"], "markets": markets, "strategies": strategies, "listener_kwargs": dict(rng.choice(FILTERS))}
    if ev_proc:
        case["event_processing"] = True
        if rng.random() < 0.3 and n_events > 1:
            case["event_groups"] = {"30000000": "G", "30000001": "G"}
    return case, snaps


def predict(snaps, kw):
    """B5: which lines of one file are delivered."""
    out = []
    inplay_since = None
    prev_inplay = False
    for s in snaps:
        md = s["md"] or {}
        status, inplay = md.get("status"), bool(md.get("inPlay"))
        if kw.get("max_inplay_seconds") is not None and inplay and not prev_inplay and inplay_since is None:
            inplay_since = s["pt"]
        prev_inplay = inplay
        active = True
        if status == "OPEN":
            if kw.get("inplay"):
                if not inplay:
                    active = False
            elif kw.get("seconds_to_start"):
                mt = _dt.datetime.strptime(md["marketTime"], "%Y-%m-%dT%H:%M:%S.%fZ")
                now = _dt.datetime.utcfromtimestamp(s["pt"] / 1e3)
                if (mt - now).total_seconds() > kw["seconds_to_start"]:
                    active = False
            if kw.get("inplay") is False and inplay:
                active = False
            if kw.get("max_inplay_seconds") is not None and inplay_since is not None:
                if (s["pt"] - inplay_since) / 1000 > kw["max_inplay_seconds"]:
                    active = False
        if active:
            out.append((s["id"], s["pt"], status))
    return out


def run_delivery(desc, out):
    case, snaps = build(desc)
    raise_run = desc["idx"] % 9 == 8
    if desc["idx"] % 9 == 4:
        # a strategy's work inside the documented real_time() block fails (swallowed by the error handling): the simulated clock is back
        # for every later callback
        st_ = case["strategies"][0]
        mk_ = case["markets"][0]["id"]
        st_["actions"] = sorted(st_["actions"] + [{"m": mk_, "at": 1, "op": "real_time_raise"}], key=lambda a: a["at"])
    if raise_run:
        case["config"] = dict(case.get("config", {}), raise_errors=True)
        # the run ends with an exception raised in the update loop, or in the start-up / shut-down part of run()
        where = (["book", 2], ["start", 0], ["finish", 0], ["new_market", 0])[(desc["idx"] // 9) % 4]
        case["strategies"][-1 if where[0] == "finish" else 0]["raise_at"] = [where]
    two_filters = desc["idx"] % 7 == 5 and not raise_run and len(case["strategies"]) > 1
    if two_filters:
        # each strategy names its own listener filter (falsy values are filters too): what each is handed is what ITS filter lets through
        frng = simgen.mk_rng(desc["seed"], desc["idx"], 147)
        pairs = (({"inplay": False}, {}), ({}, {"inplay": False}), ({"inplay": True}, {"inplay": False}), ({"seconds_to_start": 30}, {}), ({"max_inplay_seconds": 2}, {"inplay": False}))
        ka, kb = frng.choice(pairs)
        case["listener_kwargs"] = {}
        case["strategies"][0]["listener_kwargs"] = dict(ka)
        case["strategies"][1]["listener_kwargs"] = dict(kb)
    tr = simrun.run_case(case)
    if two_filters:
        if O.abort_violation(tr, out):
            return
        for st_, kw_ in zip(tr.strategies[:2], (ka, kb)):
            for m_, sn_ in snaps.items():
                exp_ = [p_[1] for p_ in predict(sn_, kw_) if p_[2] != "CLOSED"]
                got_ = [r_[2] for r_ in st_.received if r_[0] == "book" and r_[1] == m_]
                out.rule("delivery")
                if got_ != exp_:
                    i_ = next((j for j, (a_, b_) in enumerate(zip(got_, exp_)) if a_ != b_), min(len(got_), len(exp_)))
                    out.v("delivered-updates-differ-from-prediction", {"filters": ",".join(sorted(kw_)) or "-", "event_processing": bool(case.get("event_processing")), "kind": "per-strategy", "other_filters": ",".join(sorted(kb if kw_ is ka else ka)) or "-"}, strategy=st_.name, market=m_, index=i_, n_got=len(got_), n_expected=len(exp_))
        out.d("c14two:%s:%s" % (sorted(ka), sorted(kb)))
        return
    kw = case["listener_kwargs"]
    out.rule("clock-restored")
    if not tr.datetime_restored:
        out.v("real-clock-not-restored", {"run_raised": bool(tr.abort), "raised_in": (tr.injected[0]["kind"] if tr.injected and tr.abort else "-")}, abort=tr.abort)
    out.d("c14:%d:%s:%s:%s:%s" % (len(case["markets"]), bool(case.get("event_processing")), sorted(kw), bool(case.get("event_groups")), (tr.injected[0]["kind"] if tr.injected else "-") if raise_run else False))
    if raise_run:
        if tr.injected and not tr.abort:
            out.v("raise-errors-did-not-propagate", {}, injected=tr.injected)
        return
    if O.abort_violation(tr, out):
        return
    got = [(t["market"], t["pt"], t["status"]) for t in tr.ticks]
    per_market = {m: predict(s, kw) for m, s in snaps.items()}
    out.rule("delivery")
    tags = {"filters": ",".join(sorted(kw)) or "-", "event_processing": bool(case.get("event_processing"))}
    for m, exp in per_market.items():
        mine = [g for g in got if g[0] == m]
        if mine != exp:
            i = next((j for j, (a, b) in enumerate(zip(mine, exp)) if a != b), min(len(mine), len(exp)))
            out.v("delivered-updates-differ-from-prediction", dict(tags, kind="missing" if len(mine) < len(exp) else "extra" if len(mine) > len(exp) else "different"), market=m, index=i, got=mine[i : i + 2], expected=exp[i : i + 2], n_got=len(mine), n_expected=len(exp))
    if len(got) != sum(len(v) for v in per_market.values()):
        out.v("delivered-count-differs", tags, got=len(got), expected=sum(len(v) for v in per_market.values()))
    if case.get("event_processing"):
        # markets of one event group are merged by publish time; groups run one after the other
        groups = {}
        eg = case.get("event_groups", {})
        for m, s in snaps.items():
            ev = s[0]["md"]["eventId"]
            groups.setdefault(eg.get(ev, ev), []).append(m)
        pos = {}
        for i, g in enumerate(got):
            pos.setdefault(g[0], []).append(i)
        for gname, ms in groups.items():
            seq = [g for g in got if g[0] in ms]
            out.rule("chronology")
            if len(ms) > 1 and any(a[1] > b[1] for a, b in zip(seq, seq[1:])):
                out.v("event-group-not-chronological", tags, group=gname, markets=ms)
    for cb in tr.callbacks:
        if cb.get("now") is not None and cb.get("pt") is not None:
            out.rule("clock")
            if cb["now"] != cb["pt"]:
                out.v("utcnow-differs-from-publish-time", {"callback": cb["kind"]}, callback=cb)


def run_determinism(desc, out):
    case, snaps = build(desc)
    if desc["idx"] % 3 != 0:
        case["listener_kwargs"] = {}  # (every third scenario keeps its listener filter: what is delivered is part of the result)
    # contention for the same traded volume (where an unstable iteration order would show) in both isolation modes
    rng = simgen.mk_rng(desc["seed"], desc["idx"], 141)
    case["config"] = {"simulated_strategy_isolation": desc["idx"] % 2 == 0}
    for s in case["strategies"]:
        for mid, sn in snaps.items():
            s["actions"] += simgen.gen_script(rng, sn, mid, s["name"] + "x", {"n_orders": (3, 8), "types": ("LIMIT",), "modes": ("join", "rest", "rest", "at"), "p_cancel": 0.05, "p_replace": 0.05, "sizes": (5.0, 25.5, 100.0)}, ref_prefix="x%s_" % mid[-2:])
        s["actions"].sort(key=lambda a: a["at"])
    slow = desc["idx"] % 2 == 1
    if slow:
        # cool-downs are measured on the simulated clock: trades carry reset periods shorter than any gap between updates of the
        # file would need in wall-clock terms, and one of the fresh processes is slowed down (sleep before every update)
        rs, ps = rng.choice(((0.03, 0.0), (0.0, 0.03), (0.03, 0.03), (2.0, 0.5)))
        for s in case["strategies"]:
            s["max_live_trade_count"] = 1e6
            for a in s["actions"]:
                if a["op"] == "place":
                    a["reset_seconds"], a["place_reset_seconds"] = rs, ps
    tmp = tempfile.mkdtemp(prefix="vfc14_")
    try:
        path = os.path.join(tmp, "case.json")
        with open(path, "w") as f:
            json.dump(case, f)
        results = []
        settings = [("0", 0), ("1", 3.2e8), ("random", -1.7e8), ("12345", 86400 * 365.25 * 20)][: desc["runs"]]
        procs = []
        for j, (hs, shift) in enumerate(settings):
            # (the process's local time zone is part of its environment too)
            env = dict(os.environ, PYTHONHASHSEED=hs, VERIF_CLOCK_SHIFT=str(shift), PYTHONDONTWRITEBYTECODE="1", VERIF_SLOW="0.04" if (slow and j == 1) else "0", TZ=("UTC", "America/New_York", "Asia/Tokyo", "Pacific/Auckland")[j % 4])
            procs.append(subprocess.Popen([sys.executable, "-m", "vf.c14child", path], env=env, stdout=subprocess.PIPE, stderr=subprocess.PIPE, text=True))
        for p in procs:
            try:
                so, se = p.communicate(timeout=300)
            except subprocess.TimeoutExpired:
                p.kill()
                raise RuntimeError("child watchdog")
            if p.returncode != 0:
                raise RuntimeError("child failed: " + se[-800:])
            results.append(json.loads(so.strip().splitlines()[-1]))
        out.rule("determinism")
        out.c("fresh_processes", len(results))
        out.d("det:%d:%d:%s" % (len(case["markets"]), results[0]["orders"], bool(case.get("event_processing"))))
        if len({r["hash"] for r in results}) != 1 or len({r["ticks"] for r in results}) != 1:
            out.v("runs-differ-between-fresh-processes", {"event_processing": bool(case.get("event_processing"))}, results=[{k: r[k] for k in ("hash", "orders", "ticks", "abort")} for r in results])
    finally:
        import shutil

        shutil.rmtree(tmp, ignore_errors=True)


def run_sports(desc, out):
    """A simulation with SimulatedSportsDataMiddleware (sports-data updates interleaved with the market's): in every market callback
    the framework clock is still the publish time of the market update being processed."""
    import shutil
    from flumine.markets.middleware import SimulatedSportsDataMiddleware

    rng = simgen.mk_rng(desc["seed"], desc["idx"], 143)
    mid = "1.2%08d" % rng.randint(0, 99999)
    d = G.Director(rng, mid, {"p_inplay": 0.6, "n_pre": (6, 14), "spacing_ms": (500, 1000, 2000, 5000), "p_removal": 0.0})
    mf = d.run()
    pts = [l["pt"] for l in mf.lines]
    snaps = {mid: G.read_lines(mf.lines)}
    sdir = tempfile.mkdtemp(prefix="vfc14s_")
    try:
        n_sd = rng.randint(3, 12)
        sd_pts = sorted(rng.randint(pts[0], pts[-2]) for _ in range(n_sd))
        with open(os.path.join(sdir, mid), "w") as f:
            for i, pt in enumerate(sd_pts):
                f.write(json.dumps({"op": "ccm", "id": 2, "clk": str(i), "pt": pt, "cc": [{"eventId": "30000001", "marketId": mid, "fixtureInfo": {"fixtureStatus": "IN_PLAY", "eventStatus": "BALL_IN_PROGRESS", "i": i}}]}) + "\n")
        actions = simgen.gen_script(rng, snaps[mid], mid, "S0", {"n_orders": (2, 6)})
        case = {"seed": desc["seed"], "idx": desc["idx"], "markets": [{"id": mid, "text": mf.text()}], "strategies": [{"name": "S0", "actions": actions}], "_middlewares": [lambda tr: SimulatedSportsDataMiddleware("cricketSubscription", sdir)]}
        tr = simrun.run_case(case)
        if O.abort_violation(tr, out):
            return
        out.d("c14sports:%d" % min(n_sd, 8))
        for cb in tr.callbacks:
            if cb.get("now") is not None and cb.get("pt") is not None:
                out.rule("clock")
                if cb["now"] != cb["pt"]:
                    out.v("utcnow-differs-from-publish-time", {"callback": cb["kind"], "sports_data": True}, callback=cb)
        out.rule("clock-restored")
        if not tr.datetime_restored:
            out.v("real-clock-not-restored", {"run_raised": False, "sports_data": True})
        out.c("sports_runs")
    finally:
        shutil.rmtree(sdir, ignore_errors=True)


def run(desc):
    out = O.Out(PROPERTY)
    if desc["mode"] == "sports":
        run_sports(desc, out)
        return out.result()
    if desc["mode"] == "delivery":
        run_delivery(desc, out)
    else:
        run_determinism(desc, out)
    return out.result(sample={"case": desc} if desc["idx"] < 2 else None)
