"""C04 - simulated order sizes are conserved."""
from .. import oracles as O
from .. import simrun
from . import _sim

PROPERTY = "C04"
LEVEL = "exploration"
DISTINCT_RULE = (
    "cases = seeded synthetic markets x adversarial scripts run through FlumineSimulation; distinct key = per limit order "
    "(final status, matched>0, cancelled>0, lapsed>0, voided>0, persistence); trivial (never sampled) orders are not counted"
)
RULES = ["sum", "complete-iff-zero", "monotone", "replace-moves-size"]
MINIMA = {"quick": {"rule_sum": 20000, "rule_complete-iff-zero": 5000}, "thorough": {"rule_sum": 500000}}
ASSUMPTIONS = ["requested size is what the strategy passed at the request boundary", "CPython 3.12, betfairlightweight resource classes"]
WEIGHTS = [("hostile", 4), ("plain", 1), ("thin", 1), ("lines", 1), ("nobpe", 1), ("fullmatch", 1), ("multi", 1), ("fastlat", 2), ("recorded", 1), ("recorded_event", 1), ("event", 2), ("availprices", 1)]


def plan(tier, seed):
    cases = _sim.plan_profiles(tier, seed, WEIGHTS, 6000, 64000)
    # the same engine under paper trading (live Flumine, calls on the execution pool, completion reported by the poller)
    cases += [{"mode": "paper_walk", "seed": seed, "idx": i, "len": 40 + i % 50} for i in range(300 if tier == "quick" else 6000)]
    return cases


def run(desc):
    if desc.get("mode") == "paper_walk":
        from .. import paperwalk

        r = paperwalk.walk(desc)
        out = O.Out(PROPERTY)
        O.c04_conservation(r.tr, out, r.snaps, O.root_causes(r.tr))
        out.c("paper_orders", len(r.tr.samples))
        out.c("paper_walks")
        return out.result()
    if desc["idx"] % 6 == 2 and desc.get("profile") not in ("recorded", "recorded_event"):
        # starting-price markets in which some runners get no actual starting price at the off (orders carried to the off on them stay open)
        desc = dict(desc)
        mp_ = dict(_sim.PROFILES[desc["profile"]].get("market_params") or {})
        mp_.update(p_no_bsp=0.4, p_bsp=1.0, p_inplay=1.0)
        desc["overrides"] = dict(desc.get("overrides") or {}, market_params=mp_)
    case, snaps = _sim.build(desc)
    if case.get("event_processing"):
        case["sample_siblings"] = True  # the strategy also looks at its orders in the event's other markets whenever it is called
    tr = simrun.run_case(case)
    out = O.Out(PROPERTY)
    tags = O.root_causes(tr)
    O.abort_violation(tr, out)
    O.c04_conservation(tr, out, snaps, tags)
    out.c("orders", len(tr.samples))
    return out.result(sample=_sim.sample_of(case, tr) if desc["idx"] < 2 else None)
