"""C16 - reported exposure equals the true worst case."""
from .. import oracles as O
from .. import simrun, simgen, observers
from . import _sim

PROPERTY = "C16"
LEVEL = "exploration"
DISTINCT_RULE = (
    "positions are produced by real trading in simulation (both sides, three order types, partial fills, cancels, SP conversion, every status); at every update "
    "get_exposures / selection_exposure / market_exposure are compared with brute force over all fill subsets and winner sets; distinct = (#counted orders<=4, "
    "set of type+side letters, set of statuses) per selection position"
)
RULES = ["selection-exposure", "market-exposure", "exclusion", "new-order"]
MINIMA = {"quick": {"rule_selection-exposure": 8000, "rule_market-exposure": 4000, "rule_exclusion": 3000}, "thorough": {"rule_selection-exposure": 400000}}
ASSUMPTIONS = ["inputs of the brute force are the fields the exchange reports per bet (matched size, average matched price, remaining, limit, liability, status)", "tolerance 0.011 per selection (two 2-dp roundings)"]
WEIGHTS = [("hostile", 3), ("plain", 2), ("deep", 2), ("multi", 1)]


def plan(tier, seed):
    return _sim.plan_profiles(tier, seed, WEIGHTS, 3500, 60000)


def build(desc):
    rng = simgen.mk_rng(desc["seed"], desc["idx"], 16)
    d = dict(desc)
    mp = dict(_sim.PROFILES[desc["profile"]]["market_params"])
    mp.update(n_runners=(2, 5), market_types=("WIN", "PLACE"), winners=(1, 2, 3), p_removal=0.1)
    d["overrides"] = {
        "market_params": mp,
        "script_params": {"n_orders": (3, 12), "types": ("LIMIT",) * 5 + ("LOC", "MOC"), "p_cancel": 0.25, "p_replace": 0.2, "p_fok": 0.1, "modes": ("cross", "cross", "at", "rest", "join", "far"), "sizes": (2.0, 2.37, 5.0, 10.0, 25.5)},
    }
    return _sim.build(d)


def run(desc):
    case, snaps = build(desc)
    tr = simrun.run_case(case, observers=[observers.exposures])
    out = O.Out(PROPERTY)
    O.abort_violation(tr, out)
    out.violations += [v for v in tr.online if v["property"] == PROPERTY]
    for k, v in tr.counters.items():
        if k.startswith("rule_"):
            out.c(k, v)
    out.distinct |= tr.distinct
    return out.result(sample=_sim.sample_of(case, tr) if desc["idx"] < 2 else None)
