"""C16 - reported exposure equals the true worst case."""
from .. import oracles as O
from .. import simrun, simgen, observers
from . import _sim

PROPERTY = "C16"
LEVEL = "exploration"
DISTINCT_RULE = (
    "positions are produced by real trading in simulation (both sides, three order types, partial fills, cancels, SP conversion, every status); at every update "
    "get_exposures / selection_exposure / market_exposure are compared with brute force over all fill subsets and winner sets; distinct = (#counted orders<=4, "
    "set of type+side letters, set of statuses) per selection position"
)
RULES = ["selection-exposure", "market-exposure", "exclusion", "new-order"]
MINIMA = {"quick": {"rule_selection-exposure": 8000, "rule_market-exposure": 4000, "rule_exclusion": 3000, "live_positions": 300}, "thorough": {"rule_selection-exposure": 400000}}
ASSUMPTIONS = ["inputs of the brute force are the fields the exchange reports per bet (matched size, average matched price, remaining, limit, liability, status)", "tolerance 0.011 per selection (two 2-dp roundings)"]
WEIGHTS = [("hostile", 3), ("plain", 2), ("deep", 2), ("multi", 1), ("lines", 1), ("recorded", 1)]


def plan(tier, seed):
    cases = _sim.plan_profiles(tier, seed, WEIGHTS, 3500, 60000)
    cases += [{"mode": "mixed", "seed": seed, "idx": i} for i in range(150 if tier == "quick" else 3000)]
    return cases + [{"mode": "live", "seed": seed, "idx": i} for i in range(600 if tier == "quick" else 10000)]


def build_line(desc):
    """LINE_RANGE market: orders struck at line values, some matched, some resting (every bet is at even money)."""
    from .. import marketgen as G
    from .. import ladder as L

    rng = simgen.mk_rng(desc["seed"], desc["idx"], 161)
    lo, hi, iv = rng.choice(((0.5, 100.5, 1.0), (1.0, 60.0, 1.0), (100.5, 200.5, 1.0)))
    mid = "1.2%08d" % rng.randint(0, 99999)
    mf = G.MarketFile(mid, [(5000, 0, None)], market_type="TOTAL_POINTS_LINE", betting_type="LINE", ladder="LINE_RANGE", line=(lo, hi, iv), bsp=False)
    prices = L.line_prices(lo, hi, iv)
    mid_i = rng.randrange(3, len(prices) - 3)
    t = G.T0
    for i in range(rng.randint(5, 9)):
        t += 500
        mf.emit(t, rc={(5000, 0): {"atb": {prices[mid_i - 1]: 6.0}, "atl": {prices[mid_i + 1]: 6.0}, "trd": {prices[mid_i]: 4.0 * (i + 1)}}})
    t += 500
    mf.emit(t, md_changes={"status": "SUSPENDED"})
    t += 500
    mf.emit(t, md_changes={"status": "CLOSED"}, runner_md={(5000, 0): {"status": "WINNER"}})
    info = {"marketUnit": "points", "interval": iv, "minUnitValue": lo, "maxUnitValue": hi}
    actions = []
    for j in range(rng.randint(2, 6)):
        pr = prices[max(0, min(len(prices) - 1, mid_i + rng.randint(-3, 3)))]
        actions.append({"m": mid, "at": rng.randrange(0, 4), "op": "place", "ref": "l%d" % j, "sel": [5000, 0], "side": rng.choice(("BACK", "LAY")), "price": pr, "size": rng.choice((2.0, 4.0, 10.0)), "ladder": "LINE_RANGE", "line_info": info, "persistence": "PERSIST"})
        if rng.random() < 0.3:
            actions.append({"m": mid, "at": rng.randrange(2, 6), "op": "cancel", "ref": "l%d" % j, "reduction": rng.choice((None, 1.0))})
    actions.sort(key=lambda a: a["at"])
    case = {"seed": desc["seed"], "idx": desc["idx"], "markets": [{"id": mid, "text": mf.text()}], "strategies": [{"name": "S0", "actions": actions}], "config": {"place_latency": 0.0}}
    return case, {mid: G.read_lines(mf.lines)}


def build(desc):
    if desc["idx"] % 9 == 8:
        return build_line(desc)
    rng = simgen.mk_rng(desc["seed"], desc["idx"], 16)
    d = dict(desc)
    mp = dict(_sim.PROFILES[desc["profile"]]["market_params"])
    mp.update(n_runners=(2, 5), market_types=("WIN", "PLACE"), winners=(1, 2, 3), p_removal=0.1)
    d["overrides"] = {
        "market_params": mp,
        "script_params": {"n_orders": (3, 12), "types": ("LIMIT",) * 5 + ("LOC", "MOC"), "p_finest": 0.15, "p_cancel": 0.25, "p_replace": 0.2, "p_fok": 0.1, "modes": ("cross", "cross", "at", "rest", "join", "far"), "sizes": (2.0, 2.37, 5.0, 10.0, 25.5, 2.01, 4.35, 8.2, 1.15, 0.29)},
    }
    if desc["idx"] % 7 == 5:
        d["overrides"]["n_strategies"] = (2, 2)
    case, snaps = _sim.build(d)
    if desc["idx"] % 7 == 5:
        # two instances of one strategy class added without distinct names (flumine only warns): each has its own position
        case["strategies"][1]["name"] = case["strategies"][0]["name"]
    if desc["idx"] % 5 == 3:
        # a limit makes the controls refuse some orders; the strategy offers a refused order again later (after cancels / fills it may pass)
        for st in case["strategies"]:
            st["limits"] = {"selection": rng.choice((4.0, 8.0, 15.0))}
            extra = []
            for a in st["actions"]:
                if a["op"] == "place" and rng.random() < 0.6:
                    extra.append(dict(a, at=a["at"] + rng.randint(1, 4), reuse=True))
            st["actions"] = sorted(st["actions"] + extra, key=lambda a: a["at"])
    return case, snaps


def run_live(desc):
    """Live orders: sizes, average prices and statuses come from the exchange (order stream); a bet filled over several price levels
    has an average price with more than two decimals.  Expected figures are brute-forced from the exchange's own bet table."""
    from .. import livecases
    from . import c11

    rng = simgen.mk_rng(desc["seed"], desc["idx"], 163)
    out = O.Out(PROPERTY)
    st = livecases.make_strategy("X0")
    tr, w = livecases.new_world([st])
    try:
        mid = w.add_market_file(livecases.static_market())
        w.next_book(mid)
        m = w.market(mid)
        ex = w.exchange
        for j in range(rng.randint(1, 5)):
            sel, hc = rng.choice(((701, 0), (702, 0), (703, 0), (704, -1.5)))
            otype = rng.choice(("LIMIT",) * 6 + ("LOC", "MOC"))
            o = livecases.make_order(st, mid, sel=sel, handicap=hc, side=rng.choice(("BACK", "LAY")), price=rng.choice((2.0, 3.2, 5.5, 12.0)), size=rng.choice((2.0, 37.5, 100.0, 240.0, 300.0)), otype=otype, liability=rng.choice((5.0, 40.0)))
            if otype == "LIMIT" and rng.random() < 0.25:
                # an order that names a stake and a bet target (the stake is what the framework accounts with)
                from flumine.order.ordertype import LimitOrder
                from flumine.order.trade import Trade

                o = Trade(mid, sel, hc, st).create_order(o.side, LimitOrder(o.order_type.price, o.order_type.size, persistence_type="PERSIST", bet_target_type=rng.choice(("PAYOUT", "BACKERS_PROFIT")), bet_target_size=rng.choice((30.0, 75.0))))
            m.place_order(o)
            w.executor.run_all()
            b = next((b_ for b_ in ex.bets.values() if b_["customerOrderRef"] == o.customer_order_ref), None)
            if b is None or otype != "LIMIT":
                continue
            # taken over several levels at prices at or better than the limit
            for _ in range(rng.randint(0, 3)):
                step = rng.choice((0.0, 0.05, 0.1, 0.15, 0.35))
                px = round(b["priceSize"]["price"] + (step if b["side"] == "BACK" else -step), 2)
                if px > 1.01:
                    ex.fill(b["betId"], round(b["priceSize"]["size"] * rng.choice((0.1, 0.25, 1 / 3, 0.4)), 2), price=px)
            if rng.random() < 0.2 and b["sizeRemaining"] > 0:
                ex.lapse(b["betId"])
            elif rng.random() < 0.3 and b["sizeRemaining"] > 0:
                # the bet is replaced at another price; the replacement (new bet id, same reference) is then partly filled
                w.snapshot()
                try:
                    m.replace_order(o, new_price=round(b["priceSize"]["price"] + 0.5, 2))
                except Exception:  # noqa: BLE001
                    pass
                w.executor.run_all()
                nb = [x for x in ex.bets.values() if x["customerOrderRef"] == o.customer_order_ref and x["betId"] != b["betId"]]
                if nb and nb[-1]["sizeRemaining"] > 0:
                    ex.fill(nb[-1]["betId"], round(nb[-1]["sizeRemaining"] * rng.choice((0.3, 1.0)), 2))
        for phase in ("after-responses", "after-overtaken-response", "after-snapshot"):
          if phase == "after-snapshot":
            w.snapshot()
          elif phase == "after-overtaken-response":
            if desc["idx"] % 3 != 1:
                continue
            # the order stream reports a new bet (already partly or fully matched) before the placement's own response arrives; once
            # that response is in, nothing is outstanding and the latest snapshot has been processed
            o_ = livecases.make_order(st, mid, sel=702, side=rng.choice(("BACK", "LAY")), price=3.0, size=10.0)
            m.place_order(o_)
            if w.executor.queue:
                w.exchange_process(0)
                nb_ = [x for x in ex.bets.values() if x["customerOrderRef"] == o_.customer_order_ref]
                if nb_:
                    ex.fill(nb_[-1]["betId"], rng.choice((10.0, 4.0)))
                w.snapshot()
                w.executor.run_all()
          elif desc["idx"] % 3 != 0:
            continue
          else:
            # nothing has happened at the exchange since the framework received the responses to its own requests: its figures
            # already describe what the exchange holds (an extra order placed now, no fills in between)
            o_ = livecases.make_order(st, mid, sel=701, side=rng.choice(("BACK", "LAY")), price=3.0, size=4.0)
            if rng.random() < 0.5:
                from flumine.order.ordertype import LimitOrder
                from flumine.order.trade import Trade

                o_ = Trade(mid, 701, 0, st).create_order(o_.side, LimitOrder(3.0, 4.0, persistence_type="PERSIST", bet_target_type=rng.choice(("PAYOUT", "BACKERS_PROFIT")), bet_target_size=rng.choice((30.0, 75.0))))
            w.snapshot()
            m.place_order(o_)
            w.executor.run_all()
          mb = m.market_book
          by_sel = {}
          for b in ex.bets.values():
            by_sel.setdefault((b["selectionId"], b["handicap"]), []).append(c11.bet_view(b))
          per = {}
          for sel, views in by_sel.items():
              w_, l_ = O.selection_wpp(views)
              per[sel] = (w_, l_)
              got = m.blotter.get_exposures(st, (mid, sel[0], sel[1]))
              out.rule("selection-exposure")
              frac = any(v["matched"] and abs(v["avg"] * 100 - round(v["avg"] * 100)) > 1e-6 for v in views)
              out.d("c16live:%d:%s:%s" % (min(len(views), 4), "".join(sorted({v["otype"][0] + v["side"][0] for v in views})), frac))
              if abs(got["worst_possible_profit_on_win"] - w_) > 0.011 or abs(got["worst_possible_profit_on_lose"] - l_) > 0.011:
                  out.v("selection-exposure-differs", {"types": "".join(sorted({v["otype"][0] for v in views})), "live": True, "when": phase, "fractional_average": frac}, views=views, got=got, expected=(w_, l_))
              se = m.blotter.selection_exposure(st, (mid, sel[0], sel[1]))
              if abs(se - max(0.0, -min(w_, l_))) > 0.011:
                  out.v("selection-exposure-figure-differs", {"live": True, "when": phase}, views=views, got=se, expected=max(0.0, -min(w_, l_)))
          if per and mb is not None and mb.number_of_winners is not None:
              out.rule("market-exposure")
              expm = O.market_worst_case(per, mb.number_of_winners, mb.number_of_active_runners)
              gotm = m.blotter.market_exposure(st, mb)
              if abs(gotm - expm) > 0.011 * max(1, len(per)):
                  out.v("market-exposure-differs", {"winners": mb.number_of_winners, "live": True, "when": phase}, got=gotm, expected=expm, per={str(k): v for k, v in per.items()})
        out.c("live_positions")
    finally:
        livecases.finish(w)
    return out.result()


def run_mixed(desc):
    """One strategy trades the same selections through a live account and a paper-trading account of the same framework: a prospective
    order is assessed exactly as if it had been added to the book - to all of the strategy's orders on the selection."""
    from .. import livecases
    from flumine.order.ordertype import LimitOrder
    from flumine.order.trade import Trade

    rng = simgen.mk_rng(desc["seed"], desc["idx"], 167)
    out = O.Out(PROPERTY)
    st = livecases.make_strategy("M0")
    tr, w = livecases.new_world([st], n_clients=2, paper=[False, True], usernames=["acct", "paper"])
    try:
        mid = w.add_market_file(livecases.static_market())
        w.next_book(mid)
        m = w.market(mid)
        placed = []
        for j in range(rng.randint(2, 5)):
            sel = rng.choice((701, 702))
            c = w.clients[rng.randrange(2)]
            o = livecases.make_order(st, mid, sel=sel, side=rng.choice(("BACK", "LAY")), price=rng.choice((2.0, 3.0, 4.0)), size=rng.choice((2.0, 5.0, 10.0)), persistence="PERSIST")
            m.place_order(o, client=c)
            placed.append(o)
        w.executor.run_all()
        w.snapshot(w.clients[0])
        for sel in (701, 702):
            own = [o for o in placed if o.selection_id == sel]
            for c in w.clients:
                probe = Trade(mid, sel, 0, st).create_order(rng.choice(("BACK", "LAY")), LimitOrder(rng.choice((2.0, 3.5)), rng.choice((2.0, 6.0))))
                probe.update_client(c)
                views = [simrun.exposure_view(o) for o in own] + [simrun.exposure_view(probe)]
                w_, l_ = O.selection_wpp(views)
                got = m.blotter.get_exposures(st, (mid, sel, 0), new_order=probe)
                out.rule("new-order")
                if abs(got["worst_possible_profit_on_win"] - w_) > 0.011 or abs(got["worst_possible_profit_on_lose"] - l_) > 0.011:
                    out.v("new-order-not-as-added", {"with_exclusion": False, "mixed_clients": True, "probe_paper": bool(c.paper_trade)}, got=got, expected=(w_, l_), views=views)
        out.d("c16mixed:%d" % len(placed))
        out.c("mixed_positions")
    finally:
        livecases.finish(w)
    return out.result()


def run(desc):
    if desc.get("mode") == "mixed":
        return run_mixed(desc)
    if desc.get("mode") == "live":
        return run_live(desc)
    case, snaps = build(desc)
    tr = simrun.run_case(case, observers=[observers.exposures])
    out = O.Out(PROPERTY)
    O.abort_violation(tr, out)
    out.violations += [v for v in tr.online if v["property"] == PROPERTY]
    for k, v in tr.counters.items():
        if k.startswith("rule_"):
            out.c(k, v)
    out.distinct |= tr.distinct
    return out.result(sample=_sim.sample_of(case, tr) if desc["idx"] < 2 else None)
