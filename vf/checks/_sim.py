"""Shared plumbing for the simulation-based checks: profiles -> cases -> traces."""
from .. import simgen, simrun

BASE_MARKET = {}
HOSTILE_MARKET = {"p_suspend_reopen": 0.6, "p_removal": 0.35, "p_inplay": 0.6, "depth": (0, 5), "n_pre": (5, 16)}

PROFILES = {
    "plain": dict(market_params={"p_removal": 0.0}, script_params={}),
    "hostile": dict(market_params=HOSTILE_MARKET, script_params={"n_orders": (2, 8), "p_any_step": 0.25}),
    "thin": dict(market_params={"depth": (0, 2), "p_gap": 0.6, "sizes": (0.01, 0.5, 2, 3.33)}, script_params={"p_fok": 0.5, "types": ("LIMIT",)}),
    "deep": dict(market_params={"depth": (3, 8), "p_gap": 0.2}, script_params={"p_fok": 0.4, "types": ("LIMIT",), "modes": ("cross",) * 4 + ("at", "rest")}),
    "nobpe": dict(market_params={"depth": (1, 5)}, script_params={"types": ("LIMIT",), "p_fok": 0.3}, client=lambda rng: {"bpe": False}),
    "fullmatch": dict(market_params={}, script_params={"types": ("LIMIT",)}, client=lambda rng: {"full_match": True}),
    "multi": dict(market_params=HOSTILE_MARKET, script_params={"n_orders": (1, 5)}, n_markets=(2, 3), n_strategies=(1, 3)),
    "event": dict(market_params={"p_removal": 0.2, "p_inplay": 0.5}, script_params={"n_orders": (1, 5)}, n_markets=(2, 3), n_strategies=(1, 2), event_processing=True),
    "recorded": dict(market_params={}, script_params={"n_orders": (3, 10), "sizes": (0.5, 2.0, 5.0, 10.0, 25.5)}, n_markets=(1, 2), recorded=True),
    "recorded_event": dict(market_params={}, script_params={"n_orders": (3, 8)}, n_markets=(2, 2), recorded=True, event_processing=True),
    "lines": dict(market_params={"handicaps": "lines", "n_runners": (2, 6), "depth": (1, 4), "p_removal": 0.1}, script_params={"n_orders": (2, 8)}),
    "availprices": dict(market_params={"depth": (1, 4), "p_book_change": 0.9, "p_trade": 0.3, "n_pre": (8, 20)}, script_params={"types": ("LIMIT",), "modes": ("rest", "rest", "join", "at", "far"), "p_fok": 0.0, "n_orders": (2, 6)}, config={"simulation_available_prices": True}),
    "fastlat": dict(market_params=HOSTILE_MARKET, script_params={"n_orders": (2, 7)}, config=lambda rng: {"place_latency": rng.choice((0.0, 0.001, 0.12)), "cancel_latency": rng.choice((0.0, 0.001, 0.17)), "update_latency": rng.choice((0.0, 0.15)), "replace_latency": rng.choice((0.0, 0.001, 0.28))}),
}


# the same requests made the way real strategies also make them (explicit transactions executed more than once or kept open across
# updates, order objects offered again, orders filed without being sent, `with trade:` blocks that raise, requests from other callbacks)
USAGE_MIX = {"p_batch": 0.6, "p_reoffer": 0.25, "p_reoffer_same_step": 0.12, "p_hold": 0.3, "p_execute_false": 0.06, "p_trade_ctx_raise": 0.08, "p_on_close": 0.5}


def build(desc):
    prof = dict(PROFILES[desc["profile"]])
    prof.update(desc.get("overrides") or {})
    case, snaps = simgen.gen_case(desc["seed"], desc["idx"], salt=desc.get("salt", 0), **prof)
    if desc.get("usage"):
        simgen.usage_variants(case, snaps, simgen.mk_rng(desc["seed"], desc["idx"], 909), **desc["usage"])
    return case, snaps


def plan_profiles(tier, seed, weights, quick_n, thorough_n, usage=USAGE_MIX):
    n = quick_n if tier == "quick" else thorough_n
    names = []
    for name, w in weights:
        names += [name] * w
    return [dict({"seed": seed, "idx": i, "profile": names[i % len(names)]}, **({"usage": usage} if (usage and i % 3 == 2) else {})) for i in range(n)]


def sample_of(case, tr, limit=12):
    return {
        "markets": [{"id": m["id"], "lines": m["text"].count("\n")} for m in case["markets"]],
        "strategies": [{"name": s["name"], "actions": s["actions"][:limit]} for s in case["strategies"]],
        "status_paths": {o: [e["new"] for e in tr.status if e["o"] == o] for o in list(tr.orders)[:6]},
    }
