"""Paper trading: a live (un-run) `Flumine` whose clients are `paper_trade=True`.  Orders are matched by the simulated exchange
(`SimulatedExecution` on its thread pool, `SimulatedMiddleware` on every live market book) and reported back by the
`SimulatedOrderStream` poller.  The walk drives that venue at handler granularity: the pool is the controlled executor (a
"response" is the pool running one queued call, in any order relative to market books), the poller's loop body is executed
by the walk, several markets are open at once and close in any order.

Used by C03 (lifecycle), C04 (conservation), C10 (trade accounting) and C15 (blotter views); C08 has its own variant.
"""
from . import marketgen as G
from . import simgen, simrun, livecases
from . import ladder as L


class PaperRun:
    pass


def walk(desc, observe=None, n_strategies=1, strategy_kw=None):
    from flumine.events.events import CloseMarketEvent, CurrentOrdersEvent
    from flumine.exceptions import FlumineException
    from flumine.streams.simulatedorderstream import SimulatedOrderStream, CurrentOrders

    rng = simgen.mk_rng(desc["seed"], desc["idx"], 77)
    nc = rng.choice((1, 1, 2))
    sts = [livecases.make_strategy("P%d" % i, **(strategy_kw or {})) for i in range(n_strategies)]
    tr, w = livecases.new_world(sts, n_clients=nc, paper=True, usernames=["paper%d" % i for i in range(nc)])
    r = PaperRun()
    r.tr, r.w, r.rng, r.strategies = tr, w, rng, sts
    r.snaps, r.orders, r.closed, r.pool_errors = {}, [], [], []
    r.hooks = {}

    def run_pool(i):
        # the real pool keeps an exception raised by a call in a Future nobody reads: the call just ends there
        fn, a, kw = w.executor.queue[i]
        if desc["idx"] % 2 == 1 and rng.random() < 0.35 and r.hooks.get("book"):
            # while the call sleeps its latency on the pool thread, the main loop processes the next update of some market
            w.on_sleep = lambda secs: r.hooks["book"](rng.choice(r.hooks["open"])) if r.hooks["open"] else None
        try:
            w.executor.propagate = True
            w.executor.run(i)
        except Exception as e:  # noqa: BLE001
            import traceback

            tb = traceback.extract_tb(e.__traceback__)
            where = [f.name for f in tb if "/flumine/" in f.filename]
            r.pool_errors.append({"call": fn.__name__, "exc": type(e).__name__, "where": where[-1] if where else None, "msg": str(e)[:200], "orders": [tr.okey(o) for o in a[0]]})
        tr.counters["paper_responses"] += 1

    def run_pool_all():
        while w.executor.queue:
            run_pool(0)

    try:
        streams = [SimulatedOrderStream(w.fw, stream_id=900 + i, streaming_timeout=0.25, client=c) for i, c in enumerate(w.clients)]
        nm = rng.randint(1, 3)
        lines_read, mids = {}, []
        for j in range(nm):
            mid = "1.27%07d" % ((desc["idx"] % 100000) * 10 + j)
            d = G.Director(
                rng,
                mid,
                {"market_types": ("WIN",), "winners": (1,), "n_runners": (2, 4), "close": False, "p_removal": 0.25, "p_inplay": 0.4, "depth": (2, 3), "p_bsp": 0.5, "n_pre": (5, 12), "n_inplay": (0, 6), "p_suspend_reopen": 0.3},
            )
            mf = d.run()
            act = d.active_keys()
            rng.shuffle(act)
            d.close(statuses={key: ("WINNER" if i < 1 else "LOSER") for i, key in enumerate(act)})
            r.snaps[mid] = G.read_lines(mf.lines)
            lines_read[mid] = -1
            w.add_market_file(mf.write(livecases.tmpdir()))
            mids.append(mid)
        open_mids = list(mids)

        def sample(phase, only=None):
            for o, mid in r.orders:
                if only is not None and mid != only:
                    continue
                m = w.market(mid)
                if m is None or o.status is None or (m.closed and only is None):
                    continue
                simrun.sample_order(tr, o, phase, m)

        def watch(phase):
            if observe is not None:
                for mid in mids:
                    m = w.market(mid)
                    if m is not None and not m.closed:
                        observe(r, m, phase)

        def quiesce():
            """every queued call answered, then one poll: the point at which the venue has told the framework everything"""
            run_pool_all()
            poll()
            tr.counters["paper_quiescent_points"] += 1
            sample("cb")
            watch("book")

        def drain():
            while not w.fw.handler_queue.empty():
                ev = w.fw.handler_queue.get()
                if isinstance(ev, CloseMarketEvent):
                    w.fw._process_close_market(ev)
                    r.closed.append(ev.event.market_id)
                    sample("mw", ev.event.market_id)  # the poller may not have reported the last fills before the close: no completion demanded
                elif isinstance(ev, CurrentOrdersEvent):
                    w.fw._process_current_orders(ev)

        def poll():
            for s_ in streams:
                if w.fw.markets.live_orders:
                    cur = s_._get_current_orders()
                    if cur:
                        w.fw.handler_queue.put(CurrentOrdersEvent([CurrentOrders(cur, s_.client)]))
            tr.counters["paper_polls"] += 1
            drain()

        def book(mid):
            mb = w.next_book(mid)
            if mb is None:
                open_mids.remove(mid)
                return
            lines_read[mid] += 1
            tr.counters["paper_books"] += 1
            drain()

        for mid in mids:
            book(mid)
        r.hooks.update(book=book, open=open_mids)
        budget = desc.get("len", 60)
        while open_mids and budget > 0:
            budget -= 1
            k = rng.random()
            try:
                if k < 0.28:
                    book(rng.choice(open_mids))
                elif k < 0.5:
                    mid = rng.choice(open_mids)
                    m = w.market(mid)
                    snap = r.snaps[mid][lines_read[mid]]
                    keys = [k_ for k_, rr in snap["runners"].items() if rr["status"] == "ACTIVE"]
                    if m is None or not keys:
                        continue
                    key = rng.choice(keys)
                    bk = snap["runners"][key]
                    side = rng.choice(("BACK", "LAY"))
                    mode = rng.choice(("cross", "cross", "at", "rest"))
                    bb = max(bk["atb"]) if bk["atb"] else None
                    bl = min(bk["atl"]) if bk["atl"] else None
                    if side == "BACK":
                        pr = (bb if mode != "rest" else bl) or 5.0
                        if mode == "cross" and bb:
                            pr = L.move(pr, -rng.randint(0, 2), L.CLASSIC)
                    else:
                        pr = (bl if mode != "rest" else bb) or 5.0
                        if mode == "cross" and bl:
                            pr = L.move(pr, rng.randint(0, 2), L.CLASSIC)
                    st = rng.choice(sts)
                    tif, mfs = (None, None)
                    if rng.random() < 0.15:
                        tif, mfs = "FILL_OR_KILL", rng.choice((None, 1.0))
                    reuse = [o for o, mm in r.orders if mm == mid and o.trade.strategy is st and (o.selection_id, o.handicap) == key]
                    trade = rng.choice(reuse).trade if reuse and rng.random() < 0.25 else None
                    o = livecases.make_order(st, mid, sel=key[0], handicap=key[1], side=side, price=pr, size=rng.choice((2.0, 5.0, 12.5, 40.0)), persistence=rng.choice(("PERSIST", "LAPSE", "LAPSE", "MARKET_ON_CLOSE")) if not tif else "LAPSE", tif=tif, min_fill=mfs, trade=trade)
                    if m.place_order(o, client=rng.choice(w.clients)):
                        r.orders.append((o, mid))
                        tr.counters["paper_placed"] += 1
                elif k < 0.72 and r.orders:
                    o, mid = rng.choice(r.orders)
                    m = w.market(mid)
                    if m is None or m.closed:
                        continue
                    kk = rng.random()
                    if kk < 0.4:
                        m.cancel_order(o, size_reduction=rng.choice((None, None, 1.0, 100.0)))
                    elif kk < 0.6:
                        m.update_order(o, new_persistence_type=rng.choice(("PERSIST", "LAPSE")))
                    else:
                        m.replace_order(o, new_price=L.move(o.order_type.price, rng.choice((-2, -1, 1, 2)), L.CLASSIC))
                elif k < 0.88:
                    if w.executor.queue:
                        run_pool(rng.randrange(len(w.executor.queue)))
                elif k < 0.95:
                    poll()
                else:
                    quiesce()
            except FlumineException:
                pass
            for o_new in [o for m_ in w.fw.markets for o in m_.blotter if not any(o is x for x, _ in r.orders)]:
                r.orders.append((o_new, o_new.market_id))  # replacements
            sample("mw")
            watch("mw")
        quiesce()
        while open_mids:
            book(rng.choice(open_mids))
            if rng.random() < 0.5:
                quiesce()
            else:
                sample("mw")
                watch("mw")
        quiesce()
        r.mids = mids
        r.n_clients = nc
    finally:
        livecases.finish(w)
    return r
