"""Shared pieces for the live-double checks (C02, C03, C10, C11, C12, C15, C18): a static market file, world
construction, order factories."""
import os
import atexit
import shutil
import tempfile

from . import marketgen as G
from . import live, simrun

_TMP = None
_FILES = {}

MARKET_ID = "1.200000500"
RUNNERS = [(701, 0, 25.0), (702, 0, 35.0), (703, 0, 30.0), (704, -1.5, 10.0)]


def tmpdir():
    global _TMP
    if _TMP is None:
        _TMP = tempfile.mkdtemp(prefix="vflive_")
        atexit.register(shutil.rmtree, _TMP, True)
    return _TMP


def static_market(market_id=MARKET_ID, n_updates=40, suspended_at=(), closed_at=None, version=5000):
    """An OPEN market with a fixed two-sided book; one line per update (SUSPENDED at the given indices)."""
    key = (market_id, n_updates, tuple(suspended_at), closed_at)
    if key in _FILES:
        return _FILES[key]
    mf = G.MarketFile(market_id, RUNNERS, bsp=True, persistence=True, version=version)
    t = G.T0
    for i in range(n_updates):
        t += 1000
        rc = {k: {"atb": {2.0: 100.0, 1.9: 50.0}, "atl": {2.2: 100.0, 2.4: 50.0}} for k in mf.keys}
        if closed_at is not None and i >= closed_at:
            mf.emit(t, md_changes={"status": "CLOSED"}, runner_md={k: {"status": "WINNER" if i == 0 else "LOSER"} for i, k in enumerate(mf.keys)})
        elif i in suspended_at:
            mf.emit(t, md_changes={"status": "SUSPENDED"})
        elif mf.md["status"] != "OPEN":
            mf.emit(t, md_changes={"status": "OPEN"}, rc=rc)
        else:
            mf.emit(t, rc=rc if i == 0 else None, force_md=i == 0)
    path = mf.write(tmpdir())
    _FILES[key] = path
    return path


def make_strategy(name="L0", **kw):
    from flumine import BaseStrategy

    kw.setdefault("max_order_exposure", None)
    kw.setdefault("max_selection_exposure", None)
    kw.setdefault("max_live_trade_count", 1e6)
    kw.setdefault("multi_order_trades", True)

    class LiveStrategy(BaseStrategy):
        """records the Market object each callback is handed (what the strategy itself works with)"""

        def check_market_book(self, market, market_book):
            self.handed[market.market_id] = market
            return True

        def process_market_book(self, market, market_book):
            self.handed[market.market_id] = market

        def process_orders(self, market, orders):
            self.handed_orders[market.market_id] = market

        def process_new_market(self, market, market_book):
            self.new_markets.append(market.market_id)

    st = LiveStrategy(market_filter={}, name=name, **kw)
    st.handed, st.handed_orders, st.new_markets = {}, {}, []
    return st


def make_order(strategy, market_id, sel=701, side="BACK", price=3.0, size=10.0, persistence="PERSIST", otype="LIMIT", liability=10.0, trade=None, tif=None, min_fill=None, handicap=0):
    from flumine.order.trade import Trade
    from flumine.order.ordertype import LimitOrder, LimitOnCloseOrder, MarketOnCloseOrder

    trade = trade or Trade(market_id, sel, handicap, strategy)
    if otype == "LIMIT":
        ot = LimitOrder(price, size, persistence_type=persistence, time_in_force=tif, min_fill_size=min_fill)
    elif otype == "LOC":
        ot = LimitOnCloseOrder(liability, price)
    else:
        ot = MarketOnCloseOrder(liability)
    return trade.create_order(side, ot)


def new_world(strategies=None, **kw):
    tr = simrun.Trace()
    simrun.attach(tr)
    strategies = strategies or [make_strategy()]
    w = live.LiveWorld(strategies, **kw)
    tr.framework = w.fw
    return tr, w


def finish(w):
    simrun.detach()
    w.close()
