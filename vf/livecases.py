"""Shared pieces for the live-double checks (C02, C03, C10, C11, C12, C15, C18): a static market file, world
construction, order factories."""
import os
import atexit
import shutil
import tempfile

from . import marketgen as G
from . import live, simrun

_TMP = None
_FILES = {}

MARKET_ID = "1.200000500"
RUNNERS = [(701, 0, 25.0), (702, 0, 35.0), (703, 0, 30.0), (704, -1.5, 10.0)]


def tmpdir():
    global _TMP
    if _TMP is None:
        _TMP = tempfile.mkdtemp(prefix="vflive_")
        atexit.register(shutil.rmtree, _TMP, True)
    return _TMP


def static_market(market_id=MARKET_ID, n_updates=40, suspended_at=(), closed_at=None, version=5000):
    """An OPEN market with a fixed two-sided book; one line per update (SUSPENDED at the given indices)."""
    key = (market_id, n_updates, tuple(suspended_at), closed_at)
    if key in _FILES:
        return _FILES[key]
    mf = G.MarketFile(market_id, RUNNERS, bsp=True, persistence=True, version=version)
    t = G.T0
    for i in range(n_updates):
        t += 1000
        rc = {k: {"atb": {2.0: 100.0, 1.9: 50.0}, "atl": {2.2: 100.0, 2.4: 50.0}} for k in mf.keys}
        if closed_at is not None and i >= closed_at:
            mf.emit(t, md_changes={"status": "CLOSED"}, runner_md={k: {"status": "WINNER" if i == 0 else "LOSER"} for i, k in enumerate(mf.keys)})
        elif i in suspended_at:
            mf.emit(t, md_changes={"status": "SUSPENDED"})
        elif mf.md["status"] != "OPEN":
            mf.emit(t, md_changes={"status": "OPEN"}, rc=rc)
        else:
            mf.emit(t, rc=rc if i == 0 else None, force_md=i == 0)
    path = mf.write(tmpdir())
    _FILES[key] = path
    return path


def make_strategy(name="L0", **kw):
    from flumine import BaseStrategy

    kw.setdefault("max_order_exposure", None)
    kw.setdefault("max_selection_exposure", None)
    kw.setdefault("max_live_trade_count", 1e6)
    kw.setdefault("multi_order_trades", True)

    class LiveStrategy(BaseStrategy):
        """records the Market object each callback is handed (what the strategy itself works with)"""

        def check_market_book(self, market, market_book):
            self.handed[market.market_id] = market
            return True

        def process_market_book(self, market, market_book):
            self.handed[market.market_id] = market

        def process_orders(self, market, orders):
            self.handed_orders[market.market_id] = market

        def process_new_market(self, market, market_book):
            self.new_markets.append(market.market_id)

    st = LiveStrategy(market_filter={}, name=name, **kw)
    st.handed, st.handed_orders, st.new_markets = {}, {}, []
    return st


def make_order(strategy, market_id, sel=701, side="BACK", price=3.0, size=10.0, persistence="PERSIST", otype="LIMIT", liability=10.0, trade=None, tif=None, min_fill=None, handicap=0):
    from flumine.order.trade import Trade
    from flumine.order.ordertype import LimitOrder, LimitOnCloseOrder, MarketOnCloseOrder

    trade = trade or Trade(market_id, sel, handicap, strategy)
    if otype == "LIMIT":
        ot = LimitOrder(price, size, persistence_type=persistence, time_in_force=tif, min_fill_size=min_fill)
    elif otype == "LOC":
        ot = LimitOnCloseOrder(liability, price)
    else:
        ot = MarketOnCloseOrder(liability)
    return trade.create_order(side, ot)


def new_world(strategies=None, **kw):
    tr = simrun.Trace()
    simrun.attach(tr)
    strategies = strategies or [make_strategy()]
    w = live.LiveWorld(strategies, **kw)
    tr.framework = w.fw
    return tr, w


def finish(w):
    simrun.detach()
    w.close()


def accounts_run(seed, idx):
    """Two or three Betfair accounts in one live framework, orders of one or two strategies spread over them, then cancels / replaces /
    updates.  Returns what the OUTSIDE saw per account next to what the framework's own records say:
      wrong_account: requests that reached the exchange through an account other than the one the order belongs to,
      per_order: [(order, client username, account holding its bet)], views: {username: (bet ids in blotter.client_orders, bet ids the
      exchange holds for that account)}, n_calls."""
    from . import simgen

    rng = simgen.mk_rng(seed, idx, 4242)
    nc = rng.choice((2, 2, 3))
    sts = [make_strategy("Q%d" % i) for i in range(rng.choice((1, 2)))]
    tr, w = new_world(sts, n_clients=nc, usernames=["acct%d" % i for i in range(nc)])
    res = {"wrong_account": [], "per_order": [], "views": {}, "n_calls": 0, "n_clients": nc}
    try:
        mid = w.add_market_file(static_market())
        w.next_book(mid)
        m = w.market(mid)
        ex = w.exchange
        orders = []
        # the first request of each kind is not always made by the same account
        for k in range(rng.randint(3, 7)):
            c = w.clients[rng.randrange(nc)] if k else w.clients[rng.randrange(nc)]
            st = rng.choice(sts)
            o = make_order(st, mid, sel=rng.choice((701, 702, 703)), side=rng.choice(("BACK", "LAY")), price=rng.choice((2.0, 3.0, 4.0)), size=rng.choice((2.0, 5.0)), persistence="PERSIST")
            if rng.random() < 0.3:
                with m.transaction(client=c) as t:
                    t.place_order(o)
                    o2 = make_order(st, mid, sel=701, side="BACK", price=5.0, size=2.0)
                    t.place_order(o2)
                    orders.append((o2, c))
            else:
                m.place_order(o, client=c)
            orders.append((o, c))
            if rng.random() < 0.6:
                w.executor.run_all()
        w.executor.run_all()
        w.snapshot()
        for o, c in orders:
            if o.bet_id and o.status is not None and o.status.name == "EXECUTABLE" and rng.random() < 0.6:
                k = rng.random()
                try:
                    if k < 0.4:
                        m.cancel_order(o, size_reduction=rng.choice((None, 1.0)))
                    elif k < 0.7:
                        m.replace_order(o, new_price=o.order_type.price + 1.0)
                    else:
                        m.update_order(o, new_persistence_type="LAPSE")
                except Exception:  # noqa: BLE001
                    pass
                if rng.random() < 0.5:
                    w.executor.run_all()
        w.executor.run_all()
        w.snapshot()
        res["n_calls"] = len(ex.calls)
        res["wrong_account"] = list(ex.account_errors)
        by_ref = {}
        for b in ex.bets.values():
            by_ref.setdefault(b["customerOrderRef"], []).append(b)
        for o in m.blotter:
            for b in by_ref.get(o.customer_order_ref, []):
                if str(o.bet_id) == b["betId"]:
                    res["per_order"].append((tr.okey(o), o.client.betting_client.username, b.get("account")))
                    if b.get("account") != o.client.betting_client.username:
                        res["wrong_account"].append({"call": "place_orders", "through": b.get("account"), "bet": b["betId"], "bet_account": o.client.betting_client.username})
        for c in w.clients:
            mine = sorted(str(o.bet_id) for o in m.blotter.client_orders(c) if o.bet_id)
            held = sorted(b["betId"] for b in ex.bets.values() if b.get("account") == c.betting_client.username)
            res["views"][c.betting_client.username] = (mine, held)
    finally:
        finish(w)
    return res
