"""Locate the repository under test, put it first on sys.path, silence logging.

Every worker process imports this module first.  The repository root is
`VERIF_REPO_ROOT` (default /repo) so that sensitivity runs can point the whole
machinery at a scratch copy.
"""
import os
import sys
import logging

REPO_ROOT = os.environ.get("VERIF_REPO_ROOT", "/repo")
VERIF_ROOT = os.path.dirname(os.path.dirname(os.path.abspath(__file__)))

# guard recorded in MANIFEST.hooks (no source commit needs it: every hook is attached from here)
os.environ.setdefault("FLUMINE_VERIF", "1")

if REPO_ROOT not in sys.path[:1]:
    sys.path.insert(0, REPO_ROOT)
sys.dont_write_bytecode = True

logging.disable(logging.CRITICAL)


def setup():
    """Import flumine from REPO_ROOT and make sure it really came from there."""
    import flumine  # noqa

    src = os.path.realpath(os.path.dirname(flumine.__file__))
    want = os.path.realpath(os.path.join(REPO_ROOT, "flumine"))
    if src != want:
        raise RuntimeError("flumine imported from %s, expected %s" % (src, want))
    # virtual time for the retry back-off
    import flumine.order.orderpackage as op

    class _NoSleepTime:
        def __getattr__(self, name):
            import time as _t

            return getattr(_t, name)

        @staticmethod
        def sleep(_s):
            return None

    op.time = _NoSleepTime()
    return flumine
