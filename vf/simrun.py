"""Run a real FlumineSimulation over stream files with every monitor attached.

Monitors attach from this process by wrapping class attributes (recorded, called through,
never altering arguments or results) and through the public extension points (strategy,
middleware).  The result is a `Trace`; oracles in vf/oracles.py decide properties on it.
"""
import os
import sys
import copy
import time
import shutil
import tempfile
import traceback
import collections

from . import env

env.setup()

import flumine  # noqa: E402
from flumine import FlumineSimulation, clients, BaseStrategy, config as fconfig  # noqa: E402
from flumine.order.order import BaseOrder, OrderStatus, LIVE_STATUS, COMPLETE_STATUS  # noqa: E402
from flumine.order.trade import Trade, TradeStatus  # noqa: E402
from flumine.order.ordertype import LimitOrder, LimitOnCloseOrder, MarketOnCloseOrder, OrderTypes  # noqa: E402
from flumine.order.orderpackage import OrderPackageType  # noqa: E402
from flumine.execution.transaction import Transaction  # noqa: E402
from flumine.execution.simulatedexecution import SimulatedExecution  # noqa: E402
from flumine.simulation.simulatedorder import SimulatedOrder  # noqa: E402
from flumine.simulation import utils as simutils  # noqa: E402
from flumine.simulation.simulation import FlumineSimulation as _FS  # noqa: E402
from flumine.baseflumine import BaseFlumine  # noqa: E402
from flumine.strategy.runnercontext import RunnerContext  # noqa: E402
from flumine.markets.blotter import Blotter  # noqa: E402
from flumine.markets.middleware import Middleware, SimulatedMiddleware  # noqa: E402
from flumine.controls.clientcontrols import MaxTransactionCount  # noqa: E402
from flumine.exceptions import FlumineException  # noqa: E402
from betfairlightweight.resources.bettingresources import LineRangeInfo  # noqa: E402

ST = {s: s.name for s in OrderStatus}
KIND = {OrderPackageType.PLACE: "PLACE", OrderPackageType.CANCEL: "CANCEL", OrderPackageType.UPDATE: "UPDATE", OrderPackageType.REPLACE: "REPLACE"}
OT = {OrderTypes.LIMIT: "LIMIT", OrderTypes.LIMIT_ON_CLOSE: "LOC", OrderTypes.MARKET_ON_CLOSE: "MOC"}


def sname(status):
    return status.name if status is not None else None


class Trace:
    def __init__(self):
        self.seq = 0
        self.seq_tick = [0]  # seq -> tick
        self.tick = -1  # index of the market book being processed (all markets)
        self.ticks = []  # tick -> dict(market, pt, status, ...)
        self._pending_books = []
        self.clock = None  # simulated clock (publish time of the book being processed)
        self.okeys = {}  # id(order) -> "o<N>"
        self.orders = {}  # okey -> order
        self.tkeys = {}
        self.trades = {}
        self.status = []  # dict(seq,tick,o,prev,new,caller,clock)
        self.tstatus = []
        self.requests = []  # B2
        self.packages = []  # B3
        self.tx_ends = []  # Transaction.__exit__
        self.injected = []  # exceptions injected by scripts / middleware
        self.effects = []  # execute_* calls
        self.sim_responses = []  # SimulatedOrder.cancel / update results
        self.placements = []  # SimulatedOrder.place
        self.fragments = []  # _update_matched
        self.samples = collections.defaultdict(list)  # okey -> [sample]
        self.updates = []  # dict(tick, market, pt, phase...) one per delivered book seen by the auditor middleware
        self.ctx = []  # RunnerContext.place/reset
        self.blot = []  # blotter set/complete
        self.logs = []  # log_control events
        self.closes = []
        self.removes = []
        self.txn = []  # add_transaction
        self.mtc = []  # MaxTransactionCount._validate calls
        self.callbacks = []  # auditor callbacks (strategy name, kind, market, pt, utcnow)
        self.online = []  # violations found online by hooks
        self.counters = collections.Counter()
        self.abort = None  # exception escaping run()
        self.swallowed = []  # exceptions raised inside middleware/strategy callbacks that flumine swallowed
        self.strategies = []
        self.framework = None
        self.script_log = []
        self.tags = {}  # okey/tkey -> set(root-cause markers)
        self.shadow = collections.defaultdict(list)  # market -> orders accepted by place_order (C15)
        self.placed_trades = set()  # id(trade) of trades charged to a runner context (executed placements)
        self.in_place_request = 0
        self.undisciplined = set()  # (strategy, market, sel, hc) where an order was accepted while another was unacknowledged / forced
        self.reused_complete_trades = set()  # a new order was placed in an already COMPLETE trade (outside C10)
        self.distinct = set()
        self.rng = None
        self.sample_siblings = False  # event-grouped runs: sample the orders of the other open markets at every book callback
        self.want_positions = False  # snapshot the strategy's position at PLACE/REPLACE requests (C01)
        self.observers = []  # callables (tr, market, phase) run inside auditor callbacks
        self.mw_observers = []  # same, run inside the auditor middleware

    def nseq(self):
        self.seq += 1
        self.seq_tick.append(self.tick)
        return self.seq

    def ticks_of_seq(self, seq):
        return max(0, self.seq_tick[seq])

    def okey(self, order):
        k = self.okeys.get(id(order))
        if k is None:
            k = "o%d" % len(self.okeys)
            self.okeys[id(order)] = k
            self.orders[k] = order
        return k

    def tkey(self, trade):
        k = self.tkeys.get(id(trade))
        if k is None:
            k = "t%d" % len(self.tkeys)
            self.tkeys[id(trade)] = k
            self.trades[k] = trade
        return k

    def tag(self, key, marker):
        self.tags.setdefault(key, set()).add(marker)

    def violate(self, prop, rule, tags=None, **detail):
        self.online.append({"property": prop, "rule": rule, "tags": tags or {}, "detail": detail})


TR = None  # current trace
_HOOKS = []


def _wrap(cls, name, maker):
    orig = cls.__dict__[name]
    new = maker(orig)
    new.__name__ = getattr(orig, "__name__", name)
    setattr(cls, name, new)
    _HOOKS.append((cls, name, orig))


def detach():
    while _HOOKS:
        cls, name, orig = _HOOKS.pop()
        setattr(cls, name, orig)


def order_view(order):
    """Observable fields of an order (plain data)."""
    ot = order.order_type
    sim = order.simulated
    return {
        "status": sname(order.status),
        "complete": order.complete,
        "nlog": len(order.status_log),
        "update_data": dict(order.update_data),
        "persistence": getattr(ot, "persistence_type", None),
        "price": getattr(ot, "price", None),
        "size": getattr(ot, "size", None),
        "liability": getattr(ot, "liability", None),
        "bet_id": order.bet_id,
        "violation_msg": order.violation_msg,
        "client": id(order.client) if order.client is not None else None,
        "tstatus": order.trade.status.name,
        "tnlog": len(order.trade.status_log),
        "sm": sim.size_matched,
        "apm": sim.average_price_matched,
        "sc": sim.size_cancelled,
        "sl": sim.size_lapsed,
        "sv": sim.size_voided,
        "nfrag": len(sim.matched),
        "n_cancel_resp": len(order.responses.cancel_responses),
        "n_update_resp": len(order.responses.update_responses),
        "n_replace_resp": len(order.responses.replace_responses),
        "placed": order.responses.place_response is not None,
    }


def world_view(order, market):
    """Everything a refused request must leave untouched (C02)."""
    v = order_view(order)
    b = market.blotter
    st = order.trade.strategy
    rc = st._invested.get(order.lookup)
    v["in_blotter"] = order.id in b._orders
    v["blotter_len"] = len(b._orders)
    v["live_len"] = len(b._live_orders)
    v["in_live"] = any(o is order for o in b._live_orders)
    v["views"] = (
        sum(1 for o in b._strategy_orders.get(st, []) if o is order),
        sum(1 for o in b._strategy_selection_orders.get((st, order.selection_id, order.handicap), []) if o is order),
        sum(1 for o in b._client_orders.get(order.client, []) if o is order),
        sum(1 for o in b._trades.get(order.trade, []) if o is order),
    )
    v["rc"] = None if rc is None else (tuple(rc.trades), tuple(rc.live_trades), rc.invested, rc.datetime_last_placed, rc.datetime_last_reset)
    v["trade_orders"] = len(order.trade.orders)
    return v


def _fresh(s):
    """an equal but distinct string object, as a value read from a file / a message is (never the interned literal)"""
    return "".join(list(s)) if isinstance(s, str) else s


def exposure_view(order):
    """Fields the exchange itself reports for a bet; input of the brute-force exposure oracle (C01, C16)."""
    ot = order.order_type
    return {
        "status": sname(order.status),
        # (derived from the status the exchange reports, not from the framework's cached flag)
        "complete": sname(order.status) in ("EXECUTION_COMPLETE", "EXPIRED", "VIOLATION"),
        "side": order.side,
        "otype": OT[ot.ORDER_TYPE],
        "ladder": getattr(ot, "price_ladder_definition", None),
        "price": getattr(ot, "price", None),
        "size": getattr(ot, "size", None),
        "liability": getattr(ot, "liability", None),
        "matched": order.size_matched,
        "avg": order.average_price_matched,
        "remaining": order.size_remaining,
        "sel": (order.selection_id, order.handicap),
    }


def position_view(market, strategy):
    return [dict(exposure_view(o), o=TR.okey(o)) for o in market.blotter._strategy_orders.get(strategy, [])]


def book_view(market):
    mb = market.market_book
    if mb is None:
        return None
    return {
        "number_of_winners": mb.number_of_winners,
        "number_of_active_runners": mb.number_of_active_runners,
        "active": [(r.selection_id, r.handicap) for r in mb.runners if r.status == "ACTIVE"],
        "status": mb.status,
    }


def attach(tr):
    global TR
    TR = tr
    detach()

    # ---- order status (C03) ------------------------------------------------------------
    def mk_update_status(orig):
        def _update_status(self, status):
            prev = self.status
            was_complete = self.complete
            matched_before = self.size_matched if self.client is not None else 0
            k = TR.okey(self)
            try:
                caller = sys._getframe(2).f_code.co_name
                caller2 = sys._getframe(3).f_code.co_name
            except ValueError:
                caller = caller2 = "?"
            r = orig(self, status)
            TR.status.append(
                {"seq": TR.nseq(), "tick": TR.tick, "o": k, "prev": sname(prev), "new": sname(status), "caller": caller, "caller2": caller2, "clock": TR.clock}
            )
            TR.counters["status_transitions"] += 1
            return r

        return _update_status

    _wrap(BaseOrder, "_update_status", mk_update_status)

    def mk_repl(orig):
        def create_order_replacement(self, order, new_price, size, date_time_created):
            rep = orig(self, order, new_price, size, date_time_created)
            # the replacement belongs to the client of the order it replaces
            rep._vf_expected_client = getattr(order, "_vf_expected_client", None) or order.client
            rep._vf_replaces = TR.okey(order)
            TR.okey(rep)
            if order.simulated and getattr(order, "_vf_last_cancel_moved", None) is not None and getattr(order, "_simulated", True):
                if not hasattr(TR, "replacements"):
                    TR.replacements = []
                TR.replacements.append({"seq": TR.nseq(), "tick": TR.tick, "orig": TR.okey(order), "new": TR.okey(rep), "size": size, "moved": order._vf_last_cancel_moved})
            return rep

        return create_order_replacement

    _wrap(Trade, "create_order_replacement", mk_repl)

    def mk_tstatus(orig):
        def _update_status(self, status):
            prev = self.status
            k = TR.tkey(self)
            r = orig(self, status)
            TR.tstatus.append({"seq": TR.nseq(), "tick": TR.tick, "t": k, "prev": prev.name, "new": status.name, "clock": TR.clock})
            return r

        return _update_status

    _wrap(Trade, "_update_status", mk_tstatus)

    # ---- requests (B2) -----------------------------------------------------------------
    def mk_request(kind):
        def maker(orig):
            def req(self, order, *a, **kw):
                k = TR.okey(order)
                market = self.market
                try:
                    before = world_view(order, market)
                except Exception:
                    before = None
                pend_before = (len(self._pending_place), len(self._pending_cancel), len(self._pending_update), len(self._pending_replace))
                try:
                    bound = _SIGS[kind].bind(self, order, *a, **kw)
                    bound.apply_defaults()
                    params = dict(bound.arguments)
                except TypeError:
                    params = {}
                trade = order.trade
                strategy = trade.strategy
                rec = {
                    "seq": TR.nseq(),
                    "tick": TR.tick,
                    "clock": TR.clock,
                    "kind": kind,
                    "o": k,
                    "t": TR.tkey(trade),
                    "strategy": strategy.name,
                    "lookup": order.lookup,
                    "force": bool(params.get("force")),
                    "execute": bool(params.get("execute", True)),
                    "new_price": params.get("new_price"),
                    "mv": params.get("market_version"),
                    "size_reduction": params.get("size_reduction"),
                    "trade_params": (trade.reset_seconds, trade.place_reset_seconds, trade.pending_orders),
                    "trade_status": trade.status.name,
                    "ctx_id": id(strategy._invested[order.lookup]) if order.lookup in strategy._invested else None,
                    "position": position_view(self.market, strategy) if kind in ("PLACE", "REPLACE") and TR.want_positions else None,
                    "book": book_view(self.market) if kind in ("PLACE", "REPLACE") and TR.want_positions else None,
                    "candidate": exposure_view(order) if kind in ("PLACE", "REPLACE") and TR.want_positions else None,
                    "args": [repr(x) for x in a],
                    "kw": {x: repr(y) for x, y in kw.items()},
                    "before": before,
                    "tx": id(self),
                    "market": market.market_id,
                    "mstatus": market.market_book.status if market.market_book is not None else None,
                }
                TR.requests.append(rec)
                if kind == "PLACE":
                    TR.in_place_request += 1
                try:
                    try:
                        res = orig(self, order, *a, **kw)
                    finally:
                        if kind == "PLACE":
                            TR.in_place_request -= 1
                except BaseException as e:
                    rec["exc"] = type(e).__name__
                    rec["exc_msg"] = str(e)[:200]
                    rec["after"] = world_view(order, market)
                    rec["pend"] = (pend_before, (len(self._pending_place), len(self._pending_cancel), len(self._pending_update), len(self._pending_replace)))
                    raise
                rec["result"] = res
                rec["limits_after"] = (strategy.max_order_exposure, strategy.max_selection_exposure, strategy.max_market_exposure)
                if res and rec["position"] is not None:
                    # acknowledgement discipline (C01 domain note): an earlier order on the selection was still unacknowledged
                    if any(v["status"] == "PENDING" and tuple(v["sel"]) == (order.selection_id, order.handicap) and v["o"] != k for v in rec["position"]):
                        TR.undisciplined.add((strategy.name, market.market_id, order.selection_id, order.handicap))
                    if rec["force"]:
                        TR.undisciplined.add((strategy.name, market.market_id, order.selection_id, order.handicap))
                if kind == "PLACE" and res:
                    TR.shadow[market.market_id].append(order)
                    if rec["execute"]:
                        TR.placed_trades.add(id(trade))
                        if rec["trade_status"] == "COMPLETE":
                            TR.reused_complete_trades.add(id(trade))
                            TR.counters["reused_complete_trades"] += 1
                    else:
                        order._vf_replacement = True
                rec["after"] = world_view(order, market)
                rec["pend"] = (pend_before, (len(self._pending_place), len(self._pending_cancel), len(self._pending_update), len(self._pending_replace)))
                TR.counters["req_" + kind] += 1
                return res

            return req

        return maker

    import inspect

    _SIGS = {
        "PLACE": inspect.signature(Transaction.__dict__["place_order"]),
        "CANCEL": inspect.signature(Transaction.__dict__["cancel_order"]),
        "UPDATE": inspect.signature(Transaction.__dict__["update_order"]),
        "REPLACE": inspect.signature(Transaction.__dict__["replace_order"]),
    }
    _wrap(Transaction, "place_order", mk_request("PLACE"))
    _wrap(Transaction, "cancel_order", mk_request("CANCEL"))
    _wrap(Transaction, "update_order", mk_request("UPDATE"))
    _wrap(Transaction, "replace_order", mk_request("REPLACE"))

    def mk_txexit(orig):
        def __exit__(self, exc_type, exc_val, exc_tb):
            r = orig(self, exc_type, exc_val, exc_tb)
            TR.tx_ends.append(
                {
                    "seq": TR.nseq(),
                    "tick": TR.tick,
                    "tx": id(self),
                    "pending": (len(self._pending_place), len(self._pending_cancel), len(self._pending_update), len(self._pending_replace)),
                    "flag": self._pending_orders,
                    "exc": exc_type.__name__ if exc_type else None,
                }
            )
            return r

        return __exit__

    _wrap(Transaction, "__exit__", mk_txexit)

    # ---- packages (B3) -----------------------------------------------------------------
    def mk_pop(orig):
        def process_order_package(self, order_package):
            TR.packages.append(
                {
                    "seq": TR.nseq(),
                    "tick": TR.tick,
                    "clock": TR.clock,
                    "pid": str(order_package.id),
                    "kind": KIND[order_package.package_type],
                    "orders": [TR.okey(o) for o in order_package._orders],
                    "market": order_package.market_id,
                    "mv": order_package._market_version,
                    "bet_delay": order_package.bet_delay,
                    "delay": order_package.simulated_delay,
                    "created": order_package.date_time_created,
                    "client": order_package.client.username,
                    "async": order_package.async_,
                }
            )
            TR.counters["packages"] += 1
            return orig(self, order_package)

        return process_order_package

    _wrap(_FS, "process_order_package", mk_pop)
    _wrap(BaseFlumine, "process_order_package", mk_pop)

    # ---- effects (simulated execution) ---------------------------------------------------
    def mk_exec(kind):
        def maker(orig):
            def ex(self, order_package, http_session=None):
                market = self.flumine.markets.markets.get(order_package.market_id)
                mb = market.market_book if market else None
                rec = {
                    "seq": TR.nseq(),
                    "tick": TR.tick,
                    "clock": TR.clock,
                    "pid": str(order_package.id),
                    "kind": kind,
                    "orders": [TR.okey(o) for o in order_package._orders],
                    "pre": [sname(o.status) for o in order_package._orders],
                    "book_pt": mb.publish_time_epoch if mb is not None else None,
                    "book_status": mb.status if mb is not None else None,
                    "market": order_package.market_id,
                }
                TR.effects.append(rec)
                try:
                    r = orig(self, order_package, http_session)
                except BaseException as e:
                    rec["exc"] = type(e).__name__
                    raise
                finally:
                    rec["post"] = [sname(o.status) for o in order_package._orders]
                    rec["tpost"] = [o.trade.status.name for o in order_package._orders]
                    rec["end_seq"] = TR.nseq()
                TR.counters["effects"] += 1
                return r

            return ex

        return maker

    _wrap(SimulatedExecution, "execute_place", mk_exec("PLACE"))
    _wrap(SimulatedExecution, "execute_cancel", mk_exec("CANCEL"))
    _wrap(SimulatedExecution, "execute_update", mk_exec("UPDATE"))
    _wrap(SimulatedExecution, "execute_replace", mk_exec("REPLACE"))
    from flumine.execution.betfairexecution import BetfairExecution

    _wrap(BetfairExecution, "execute_place", mk_exec("PLACE"))
    _wrap(BetfairExecution, "execute_cancel", mk_exec("CANCEL"))
    _wrap(BetfairExecution, "execute_update", mk_exec("UPDATE"))
    _wrap(BetfairExecution, "execute_replace", mk_exec("REPLACE"))

    def _market_pt_now(order):
        """publish time of the book the framework holds for the order's market at this very moment"""
        fw = getattr(TR, "framework", None)
        try:
            mk = fw.markets.markets.get(order.market_id) if fw is not None else None
            return mk.market_book.publish_time_epoch if mk is not None and mk.market_book is not None else None
        except Exception:  # noqa: BLE001
            return None

    # ---- simulated placement / fragments (C05, C06) -----------------------------------------
    def mk_place(orig):
        def place(self, order_package, market_book, instruction, bet_id):
            runner = None
            for r in market_book.runners:
                if (r.selection_id, r.handicap) == (self.order.selection_id, self.order.handicap):
                    runner = r
            ot = self.order.order_type
            rec = {
                "seq": TR.nseq(),
                "tick": TR.tick,
                "clock": TR.clock,
                "o": TR.okey(self.order),
                "side": self.order.side,
                "otype": OT[ot.ORDER_TYPE],
                "price": getattr(ot, "price", None),
                "size": getattr(ot, "size", None),
                "tif": (instruction.get("limitOrder") or {}).get("timeInForce") if isinstance(instruction, dict) else None,
                "min_fill": (instruction.get("limitOrder") or {}).get("minFillSize") if isinstance(instruction, dict) else None,
                "is_replace": "limitOrder" not in instruction if isinstance(instruction, dict) else None,
                "bpe": order_package.client.best_price_execution,
                "full_match": self.order.client.simulated_full_match,
                "book_pt": market_book.publish_time_epoch,
                "book_is_update": market_book is getattr(TR, "current_book_obj", None),  # matched against the very update being processed
                "market_pt_now": _market_pt_now(self.order),
                "mstatus": market_book.status,
                "mversion": market_book.version,
                "pkg_mv": order_package._market_version,
                "inplay": market_book.inplay,
                "bsp_reconciled": market_book.bsp_reconciled,
                "rstatus": runner.status if runner is not None else None,
                "atb": [(x["price"], x["size"]) for x in runner.ex.available_to_back] if runner is not None else None,
                "atl": [(x["price"], x["size"]) for x in runner.ex.available_to_lay] if runner is not None else None,
                "nfrag_before": len(self.matched),
            }
            TR.placements.append(rec)
            resp = orig(self, order_package, market_book, instruction, bet_id)
            rec.update(
                resp_status=resp.status,
                resp_order_status=resp.order_status,
                error_code=resp.error_code,
                frags=[list(m) for m in self.matched[rec["nfrag_before"] :]],
                sm=self.size_matched,
                sc=self.size_cancelled,
                sl=self.size_lapsed,
                sv=self.size_voided,
                rem=self.size_remaining,
                piq=self._piq,
            )
            TR.counters["placements"] += 1
            return resp

        return place

    _wrap(SimulatedOrder, "place", mk_place)

    def mk_simresp(kind):
        def maker(orig):
            def f(self, *a, **kw):
                rem0 = self.size_remaining if kind == "CANCEL" else None
                resp = orig(self, *a, **kw)
                if kind == "CANCEL":
                    # what this cancel moved out of "remaining" (independent of what the response reports)
                    self.order._vf_last_cancel_moved = round(rem0 - self.size_remaining, 6)
                TR.sim_responses.append({"seq": TR.nseq(), "tick": TR.tick, "kind": kind, "o": TR.okey(self.order), "status": resp.status, "error": resp.error_code, "size_cancelled": getattr(resp, "size_cancelled", None)})
                return resp

            return f

        return maker

    _wrap(SimulatedOrder, "cancel", mk_simresp("CANCEL"))
    _wrap(SimulatedOrder, "update", mk_simresp("UPDATE"))

    def mk_um(orig):
        def _update_matched(self, data):
            ot = self.order.order_type
            TR.fragments.append(
                {
                    "seq": TR.nseq(),
                    "tick": TR.tick,
                    "clock": TR.clock,
                    "o": TR.okey(self.order),
                    "frag": list(data),
                    "limit": getattr(ot, "price", None),
                    "side": self.order.side,
                    "otype": OT[ot.ORDER_TYPE],
                    "status": sname(self.order.status),
                    "caller": sys._getframe(1).f_code.co_name,
                    "rem_before": self.size_remaining,
                }
            )
            TR.counters["fragments"] += 1
            return orig(self, data)

        return _update_matched

    _wrap(SimulatedOrder, "_update_matched", mk_um)

    # ---- runner context, blotter --------------------------------------------------------
    def mk_ctx(kind):
        def maker(orig):
            def f(self, trade_id):
                TR.ctx.append({"seq": TR.nseq(), "tick": TR.tick, "clock": TR.clock, "kind": kind, "ctx": id(self), "trade": trade_id, "live_before": tuple(self.live_trades)})
                return orig(self, trade_id)

            return f

        return maker

    _wrap(RunnerContext, "place", mk_ctx("place"))
    _wrap(RunnerContext, "reset", mk_ctx("reset"))

    def mk_set(orig):
        def __setitem__(self, ref, order):
            TR.blot.append({"seq": TR.nseq(), "tick": TR.tick, "kind": "set", "o": TR.okey(order), "market": self.market_id, "status": sname(order.status)})
            if not TR.in_place_request:
                # adoption from the order stream (process.create_order_from_current) enters the blotter directly
                order._vf_adopted = True
                TR.shadow[self.market_id].append(order)
                TR.placed_trades.add(id(order.trade))
                TR.tkey(order.trade)
            return orig(self, ref, order)

        return __setitem__

    _wrap(Blotter, "__setitem__", mk_set)

    def mk_comp(orig):
        def complete_order(self, order):
            TR.blot.append({"seq": TR.nseq(), "tick": TR.tick, "kind": "complete", "o": TR.okey(order), "market": self.market_id, "status": sname(order.status), "ocomplete": order.complete})
            return orig(self, order)

        return complete_order

    _wrap(Blotter, "complete_order", mk_comp)

    # ---- closure / logging / removal -------------------------------------------------------
    def mk_close(orig):
        def _process_close_market(self, event):
            mb = event.event
            mid = mb["id"] if isinstance(mb, dict) else mb.market_id
            rec = {"seq": TR.nseq(), "tick": TR.tick, "clock": TR.clock, "market": mid, "known": mid in self.markets.markets}
            TR.closes.append(rec)
            r = orig(self, event)
            m = self.markets.markets.get(mid)
            rec["closed_after"] = m.closed if m is not None else None
            try:
                rec["book_pt_after"] = m.market_book.publish_time_epoch if (m is not None and m.market_book is not None) else None
            except Exception:
                rec["book_pt_after"] = None
            rec["end_seq"] = TR.nseq()
            return r

        return _process_close_market

    _wrap(BaseFlumine, "_process_close_market", mk_close)

    def mk_remove(orig):
        def _remove_market(self, market, *a, **kw):
            # (arguments are passed through untouched: a hook must not depend on the exact signature it wraps)
            clear = kw.get("clear", a[0] if a else True)
            TR.removes.append({"seq": TR.nseq(), "tick": TR.tick, "market": market.market_id, "clear": clear, "closed": market.closed})
            return orig(self, market, *a, **kw)

        return _remove_market

    _wrap(BaseFlumine, "_remove_market", mk_remove)

    def mk_log(orig):
        def log_control(self, event):
            et = event.EVENT_TYPE.name
            rec = {"seq": TR.nseq(), "tick": TR.tick, "type": et}
            try:
                if et == "CLEARED_MARKETS":
                    rec["payload"] = [{"market_id": o.market_id, "profit": o.profit, "bet_count": o.bet_count, "commission": o.commission} for o in event.event.orders]
                elif et == "CLEARED_ORDERS_META":
                    rec["orders"] = [TR.okey(o) for o in event.event]
                elif et == "CLOSE_MARKET":
                    mb = event.event
                    rec["market"] = mb["id"] if isinstance(mb, dict) else mb.market_id
                elif et == "ORDER":
                    rec["o"] = TR.okey(event.event)
                elif et == "TRADE":
                    rec["t"] = TR.tkey(event.event)
                elif et == "MARKET":
                    rec["market"] = event.event.market_id
            except Exception as e:  # pragma: no cover
                rec["err"] = repr(e)
            TR.logs.append(rec)
            return orig(self, event)

        return log_control

    _wrap(BaseFlumine, "log_control", mk_log)

    def mk_txn(orig):
        def add_transaction(self, count, *a, **kw):
            failed = kw.get("failed", a[0] if a else False)
            TR.txn.append({"seq": TR.nseq(), "tick": TR.tick, "clock": TR.clock, "client": self.client.username, "count": count, "failed": failed})
            return orig(self, count, *a, **kw)

        return add_transaction

    _wrap(MaxTransactionCount, "add_transaction", mk_txn)

    def mk_mtc_validate(orig):
        def _validate(self, order, package_type):
            import datetime as _dt

            rec = {"seq": TR.nseq(), "tick": TR.tick, "client": self.client.username, "now": _dt.datetime.utcnow(), "kind": KIND[package_type], "o": TR.okey(order), "limit": self.client.transaction_limit, "raised": False}
            TR.mtc.append(rec)
            try:
                return orig(self, order, package_type)
            except BaseException:
                rec["raised"] = True
                raise
            finally:
                rec["hourly_after"] = self.current_transaction_count_total
                rec["total_after"] = self.transaction_count_total

        return _validate

    _wrap(MaxTransactionCount, "_validate", mk_mtc_validate)

    # ---- clock ---------------------------------------------------------------------------
    def mk_clock(orig):
        def __call__(self, pt):
            TR.tick += 1
            TR.clock = pt
            objs = getattr(TR, "_pending_objs", None)
            TR.current_book_obj = objs.pop(0) if objs else None
            if TR._pending_books:
                TR.ticks.append(TR._pending_books.pop(0))
            else:
                TR.ticks.append({"market": None, "pt": None, "status": None})
            return orig(self, pt)

        return __call__

    _wrap(simutils.SimulatedDateTime, "__call__", mk_clock)

    def mk_pmb(orig):
        def _process_market_books(self, event):
            TR._pending_books = [
                {"market": mb.market_id, "pt": mb.publish_time_epoch, "status": mb.status, "inplay": mb.inplay, "version": mb.version, "stream": mb.streaming_unique_id} for mb in event.event
            ]
            TR._pending_objs = list(event.event)
            return orig(self, event)

        return _process_market_books

    _wrap(_FS, "_process_market_books", mk_pmb)

    # ---- exceptions raised inside SimulatedMiddleware (flumine swallows them) -----------------
    def mk_mw(orig):
        def __call__(self, market):
            try:
                return orig(self, market)
            except BaseException as e:
                tb = traceback.extract_tb(e.__traceback__)
                TR.swallowed.append({"seq": TR.nseq(), "tick": TR.tick, "where": "SimulatedMiddleware", "market": market.market_id, "type": type(e).__name__, "stack": [f.name for f in tb if "/flumine/" in f.filename]})
                raise

        return __call__

    _wrap(SimulatedMiddleware, "__call__", mk_mw)


# -------------------------------------------------------------------------------------------
# strategies
# -------------------------------------------------------------------------------------------


def sample_order(tr, order, phase, market):
    sim = order.simulated
    ot = order.order_type
    s = {
        "tick": tr.tick,
        "seq": tr.nseq(),
        "phase": phase,
        "clock": tr.clock,
        "status": sname(order.status),
        "complete": order.complete,
        "otype": OT[ot.ORDER_TYPE],
        "side": order.side,
        "size": getattr(ot, "size", None),
        "price": getattr(ot, "price", None),
        "liability": getattr(ot, "liability", None),
        "persistence": getattr(ot, "persistence_type", None),
        "frags": [list(m) for m in sim.matched],
        "sm": sim.size_matched,
        "apm": sim.average_price_matched,
        "sc": sim.size_cancelled,
        "sl": sim.size_lapsed,
        "sv": sim.size_voided,
        "rem": order.size_remaining,
        "srem": sim.size_remaining,
        "o_sm": order.size_matched,
        "piq": sim._piq,
        "bet_id": order.bet_id,
        "in_live": any(o is order for o in market.blotter._live_orders),
        "sel": (order.selection_id, order.handicap),
        "market": order.market_id,
    }
    if phase == "closed":
        s["profit"] = order.profit
        s["runner_status"] = order.runner_status
        s["market_type"] = order.market_type
        s["ew_div"] = order.each_way_divisor
        s["ndh"] = order.number_of_dead_heat_winners
        s["line_result"] = order.line_range_result
        s["o_apm"] = order.average_price_matched
        s["ladder"] = getattr(ot, "price_ladder_definition", None)
        # the client the strategy chose for the order (a replacement belongs to the client of the order it replaces)
        ic_ = getattr(order, "_vf_expected_client", None) or order.client
        s["client"] = ic_.username if ic_ else None
        s["client_recorded"] = order.client.username if order.client else None
    tr.samples[tr.okey(order)].append(s)
    tr.counters["samples"] += 1
    return s


class AuditMiddleware(Middleware):
    """Added after SimulatedMiddleware: observes the state right after matching / removals."""

    def __init__(self, tr):
        self.tr = tr

    def __call__(self, market):
        tr = self.tr
        mb = market.market_book
        tr.updates.append(
            {
                "tick": tr.tick,
                "market": market.market_id,
                "pt": mb.publish_time_epoch,
                "status": mb.status,
                "seq": tr.nseq(),
                "closed": market.closed,
                "cleared_flags": (len(market.orders_cleared), len(market.market_cleared)),
            }
        )
        for order in market.blotter:
            sample_order(tr, order, "mw", market)
        for obs in tr.mw_observers:
            obs(tr, market, "mw")


class AuditStrategy(BaseStrategy):
    """Added last: observes what a strategy can observe; never trades."""

    def __init__(self, tr, *a, hooks=None, **kw):
        super().__init__(*a, **kw)
        self.tr = tr
        self.hooks = hooks or {}

    def _cb(self, kind, market, market_book):
        import datetime as _dt

        tr = self.tr
        pt = market_book.publish_time if not isinstance(market_book, dict) else None
        tr.callbacks.append({"seq": tr.nseq(), "tick": tr.tick, "strategy": self.name, "kind": kind, "market": market.market_id, "pt": pt, "now": _dt.datetime.utcnow()})
        for order in market.blotter:
            sample_order(tr, order, kind, market)
        if tr.sample_siblings and kind == "book":
            # event-grouped runs: a strategy called for this market can also look at its orders in the sibling markets
            for other in tr.framework.markets:
                if other is not market and not other.closed and other.market_book is not None:
                    for order in other.blotter:
                        sample_order(tr, order, "sibling", other)
        for obs in tr.observers:
            obs(tr, market, kind)

    def process_new_market(self, market, market_book):
        self.tr.callbacks.append({"seq": self.tr.nseq(), "tick": self.tr.tick, "strategy": self.name, "kind": "new_market", "market": market.market_id, "pt": market_book.publish_time})

    def check_market_book(self, market, market_book):
        return True

    def process_market_book(self, market, market_book):
        self._cb("book", market, market_book)

    def process_orders(self, market, orders):
        self._cb("orders", market, market.market_book)

    def process_closed_market(self, market, market_book):
        self._cb("closed", market, market_book)


class ScriptedStrategy(BaseStrategy):
    """Behaviour is a seeded script over logical steps (per-market update index)."""

    def __init__(self, tr, script, *a, **kw):
        super().__init__(*a, **kw)
        self.tr = tr
        self.script = script
        self.idx = collections.Counter()  # market -> number of process_market_book calls so far
        self.by_step = collections.defaultdict(list)
        for act in script.get("actions", []):
            # "via": [market, step] - the request on market act["m"] is made while an update of ANOTHER market is being processed
            if act.get("cb") == "closed":
                continue
            self.by_step[tuple(act["via"]) if act.get("via") else (act["m"], act["at"])].append(act)
        self.refs = {}  # ref -> order
        self.trade_refs = {}
        # fault injection: [(callback kind, nth invocation of that callback)] -> raise inside the callback
        self.raise_at = {(k, n) for k, n in script.get("raise_at", [])}
        self.cb_count = collections.Counter()
        self.received = []  # (callback kind, market, publish time) in order
        self.line_info = script.get("line_info")
        self.held = {}  # market id -> Transaction kept open across updates ("held": True actions go through it)
        self.budgets = script.get("budgets")  # {"sel,hc": max_selection_exposure} loaded in the validate_order hook
        self.touch_contexts_on_close = script.get("touch_contexts_on_close", False)
        # actions triggered from process_closed_market: {"m": closing market, "cb": "closed", "target": other market, ...}
        self.on_close = collections.defaultdict(list)
        for act in script.get("actions", []):
            if act.get("cb") == "closed":
                self.on_close[act["m"]].append(act)

    def validate_order(self, runner_context, order):
        # a strategy that trades runners with different budgets loads the budget of the order's runner in its hook
        if self.budgets is not None:
            b = self.budgets.get("%s,%s" % (order.selection_id, order.handicap))
            if b is not None:
                self.max_selection_exposure = b
        return super().validate_order(runner_context, order)

    # -- helpers
    def _order_for(self, act):
        o = self.refs.get(act["ref"])
        if o is None:
            return None
        if act.get("follow"):
            o = o.trade.orders[-1]
        return o

    def _log(self, act, **kw):
        rec = {"tick": self.tr.tick, "strategy": self.name, "act": act}
        rec.update(kw)
        self.tr.script_log.append(rec)

    def _mk_order(self, market, act):
        sel, hc = act["sel"]
        tref = act.get("trade") or ("T_" + act["ref"])
        trade = self.trade_refs.get(tref)
        if trade is None:
            trade = Trade(
                market.market_id,
                sel,
                hc,
                self,
                place_reset_seconds=act.get("place_reset_seconds", 0.0),
                reset_seconds=act.get("reset_seconds", 0.0),
                pending_orders=act.get("pending_orders", False),
            )
            self.trade_refs[tref] = trade
        ot = act.get("otype", "LIMIT")
        if ot == "LIMIT":
            kw = {}
            if act.get("ladder") == "LINE_RANGE":
                kw = dict(price_ladder_definition="LINE_RANGE", line_range_info=LineRangeInfo(**act["line_info"]))
            elif act.get("ladder") == "FINEST":
                kw = dict(price_ladder_definition="FINEST")
            order_type = LimitOrder(
                act["price"], act["size"], persistence_type=_fresh(act.get("persistence", "LAPSE")), time_in_force=_fresh(act.get("tif")), min_fill_size=act.get("min_fill"), **kw
            )
        elif ot == "LOC":
            order_type = LimitOnCloseOrder(act["liability"], act["price"])
        else:
            order_type = MarketOnCloseOrder(act["liability"])
        order = trade.create_order(act["side"], order_type)
        self.refs[act["ref"]] = order
        self.tr.okey(order)
        return order

    def _do(self, market, act, tx=None):
        op = act["op"]
        target = tx or market
        try:
            if op == "place":
                order = self.refs.get(act["ref"]) if act.get("reuse") else None
                if order is None:
                    order = self._mk_order(market, act)
                mv = None
                if act.get("mv") == "cur":
                    mv = market.market_book.version
                elif act.get("mv") == "stale":
                    mv = market.market_book.version - 1
                kw = {}
                if act.get("client") is not None and tx is None:
                    kw["client"] = list(self.clients)[act["client"]]
                if act.get("execute") is False:
                    kw["execute"] = False  # filed in the blotter, never sent
                if act.get("in_trade_ctx"):
                    with order.trade:
                        res = target.place_order(order, market_version=mv, force=act.get("force", False), **kw)
                else:
                    res = target.place_order(order, market_version=mv, force=act.get("force", False), **kw)
                self._log(act, result=res, o=self.tr.okey(order))
            elif op in ("cancel", "update", "replace"):
                order = self._order_for(act)
                if order is None:
                    self._log(act, skipped="no such order")
                    return
                if op == "cancel":
                    res = target.cancel_order(order, size_reduction=act.get("reduction"), force=act.get("force", False))
                elif op == "update":
                    res = target.update_order(order, new_persistence_type=act["persistence"], force=act.get("force", False))
                else:
                    mv = market.market_book.version if act.get("mv") == "cur" else None
                    res = target.replace_order(order, new_price=act["price"], market_version=mv, force=act.get("force", False))
                self._log(act, result=res, o=self.tr.okey(order))
            elif op == "batch":
                client = list(self.clients)[act.get("client", 0)]
                with market.transaction(client=client) as t:
                    for i, sub in enumerate(act["items"]):
                        self._do(market, sub, tx=t)
                        if i in act.get("execute_after", ()):
                            n = t.execute()
                            self._log({"op": "execute"}, result=n)
                        if act.get("raise_after") == i:
                            # fault injection in the middle of a callback, inside the transaction block
                            self.tr.injected.append({"seq": self.tr.nseq(), "tick": self.tr.tick, "strategy": self.name, "kind": "in_tx", "n": i})
                            raise ValueError("injected inside transaction block of %s" % self.name)
            elif op == "hold_open":
                # a transaction taken now and used in later updates
                self.held[market.market_id] = market.transaction()
            elif op == "held":
                t = self.held.get(market.market_id)
                if t is None:
                    self._log(act, skipped="no held transaction")
                    return
                for sub in act["items"]:
                    self._do(market, sub, tx=t)
                n = t.execute()
                self._log({"op": "execute-held"}, result=n)
            elif op == "trade_ctx_raise":
                # the strategy wraps several requests in `with trade:`; one of them is refused with an exception that leaves the block
                order = self._order_for(act)
                if order is None:
                    return
                try:
                    with order.trade:
                        for sub in act.get("items", ()):
                            self._do(market, sub)
                        target.cancel_order(order)  # raises OrderUpdateError unless the order happens to be executable
                        target.replace_order(order, new_price=order.order_type.price)  # same price: always refused with an exception
                except FlumineException as e:
                    self._log(act, exc=type(e).__name__)
                    if not hasattr(self.tr, "own_exception_trades"):
                        self.tr.own_exception_trades = set()
                    self.tr.own_exception_trades.add(self.tr.tkey(order.trade))
            elif op == "clear_context":
                # strategy bookkeeping kept in market.context is rebuilt from scratch
                market.context = {"mine": self.name}
            elif op == "real_time_raise":
                # the documented real_time() block; the work inside it fails
                self.tr.injected.append({"seq": self.tr.nseq(), "tick": self.tr.tick, "strategy": self.name, "kind": "real_time", "n": 0})
                with market.flumine.simulated_datetime.real_time():
                    raise ValueError("injected inside real_time() of %s" % self.name)
            elif op == "raise":
                raise (FlumineException if act.get("flumine") else ValueError)("injected by script")
        except FlumineException as e:
            if op == "raise":
                raise
            self._log(act, exc=type(e).__name__, msg=str(e)[:160])
        except ValueError:
            if op == "raise":
                raise
            raise

    # -- callbacks
    def _enter(self, kind, market, market_book=None):
        n = self.cb_count[kind]
        self.cb_count[kind] += 1
        pt = getattr(market_book, "publish_time_epoch", None) if market_book is not None else (market.market_book.publish_time_epoch if market.market_book is not None else None)
        self.received.append((kind, market.market_id, pt))
        if (kind, n) in self.raise_at:
            self.tr.injected.append({"seq": self.tr.nseq(), "tick": self.tr.tick, "strategy": self.name, "kind": kind, "n": n})
            raise ValueError("injected in %s #%d of %s" % (kind, n, self.name))

    def start(self, flumine):
        if ("start", 0) in self.raise_at:
            self.tr.injected.append({"seq": self.tr.nseq(), "tick": self.tr.tick, "strategy": self.name, "kind": "start", "n": 0})
            raise ValueError("injected in start of %s" % self.name)

    def finish(self, flumine):
        if ("finish", 0) in self.raise_at:
            self.tr.injected.append({"seq": self.tr.nseq(), "tick": self.tr.tick, "strategy": self.name, "kind": "finish", "n": 0})
            raise ValueError("injected in finish of %s" % self.name)

    def process_new_market(self, market, market_book):
        self._enter("new_market", market, market_book)

    def check_market_book(self, market, market_book):
        self._enter("check", market, market_book)
        return True

    def process_closed_market(self, market, market_book):
        self.received.append(("closed", market.market_id, market_book.publish_time_epoch))
        if self.touch_contexts_on_close:
            # end-of-market bookkeeping reads the runner accounting of every order
            for o in market.blotter.strategy_orders(self):
                self.get_runner_context(*o.lookup)
                self.has_executable_orders(*o.lookup) if hasattr(self, "has_executable_orders") else None
        for act in self.on_close.get(market.market_id, ()):
            target = market.flumine.markets.markets.get(act.get("target", market.market_id))
            if target is None or target.closed or target.market_book is None:
                self._log(act, exc="target-market-not-available")
                continue
            self._do(target, dict(act, m=target.market_id))

    def process_market_book(self, market, market_book):
        self._enter("book", market, market_book)
        i = self.idx[market.market_id]
        self.idx[market.market_id] += 1
        for act in self.by_step.get((market.market_id, i), ()):
            if act.get("cb", "book") == "book":
                target = market
                if act["m"] != market.market_id:
                    target = market.flumine.markets.markets.get(act["m"])
                    if target is None or target.closed or target.market_book is None:
                        self._log(act, exc="target-market-not-available")
                        continue
                self._do(target, act)

    def process_orders(self, market, orders):
        self._enter("orders", market)
        i = self.idx[market.market_id]  # index of the book about to be delivered to process_market_book
        for act in self.by_step.get((market.market_id, i), ()):
            if act.get("cb") == "orders" and not act.get("_done"):
                act["_done"] = True
                self._do(market, act)


# -------------------------------------------------------------------------------------------
# running
# -------------------------------------------------------------------------------------------

_CONFIG_KEYS = ("place_latency", "cancel_latency", "update_latency", "replace_latency", "simulated_strategy_isolation", "simulation_available_prices", "raise_errors", "async_place_orders")
_CONFIG_DEFAULT = {k: getattr(fconfig, k) for k in _CONFIG_KEYS}


def run_case(case, extra_strategies=None, audit=True, pre_run=None, observers=(), mw_observers=(), want_positions=False):
    """case: dict(markets=[{id,text}], strategies=[...], clients=[...], config={...}, event_processing, listener_kwargs,
    line_results={market_id: value}).  Returns the Trace."""
    tr = Trace()
    tr.observers = list(observers)
    tr.want_positions = want_positions
    tr.sample_siblings = bool(case.get("sample_siblings"))
    import random as _random

    tr.rng = _random.Random(case.get("seed", 0) * 7 + case.get("idx", 0))
    tr.mw_observers = list(mw_observers)
    attach(tr)
    tmp = tempfile.mkdtemp(prefix="vf_")
    try:
        paths = []
        for m in case["markets"]:
            p = os.path.join(tmp, m["id"])
            with open(p, "w") as f:
                f.write(m["text"])
            paths.append(p)
        for k in _CONFIG_KEYS:
            setattr(fconfig, k, case.get("config", {}).get(k, _CONFIG_DEFAULT[k]))
        cls = case.get("clients") or [{}]
        cl_objs = []
        for i, c in enumerate(cls):
            cl_objs.append(
                clients.SimulatedClient(
                    username=c.get("username", "sim%d" % i),
                    best_price_execution=c.get("bpe", True),
                    simulated_full_match=c.get("full_match", False),
                    min_bet_validation=c.get("min_bet_validation", True),
                    transaction_limit=c.get("transaction_limit", None),
                    commission_base=c.get("commission", 0.05),
                )
            )
        if case.get("middleware_first"):
            # the application brings its own subclass of the simulation middleware and registers it before the clients
            from flumine.markets.middleware import SimulatedMiddleware as _SM

            class UserSimulatedMiddleware(_SM):
                def remove_market(self, market):
                    return super().remove_market(market)

            fw = FlumineSimulation()
            fw.add_market_middleware(UserSimulatedMiddleware())
            for c in cl_objs:
                fw.add_client(c)
        else:
            fw = FlumineSimulation(client=cl_objs[0])
            for c in cl_objs[1:]:
                fw.add_client(c)
        tr.framework = fw
        base_filter = {"markets": paths, "listener_kwargs": dict(case.get("listener_kwargs", {}))}
        if case.get("event_processing"):
            base_filter["event_processing"] = True
        if case.get("event_groups"):
            base_filter["event_groups"] = case["event_groups"]
        for s in case.get("strategies", []):
            mf = dict(base_filter)
            if s.get("markets") is not None:
                mf["markets"] = [p for p in paths if os.path.basename(p) in s["markets"]]
            else:
                mf["markets"] = list(paths)
            if s.get("listener_kwargs") is not None:
                mf["listener_kwargs"] = dict(s["listener_kwargs"])
            lim = s.get("limits", {})
            st = ScriptedStrategy(
                tr,
                s,
                market_filter=mf,
                name=s["name"],
                max_order_exposure=lim.get("order", None),
                max_selection_exposure=lim.get("selection", None),
                max_market_exposure=lim.get("market", None),
                max_trade_count=s.get("max_trade_count", 1e6),
                max_live_trade_count=s.get("max_live_trade_count", 1e6),
                multi_order_trades=s.get("multi_order_trades", True),
            )
            fw.add_strategy(st)
            tr.strategies.append(st)
        for st in extra_strategies or ():
            fw.add_strategy(st(tr, fw, base_filter) if callable(st) else st)
        if audit:
            mf = dict(base_filter)
            mf["markets"] = list(paths)
            aud = AuditStrategy(tr, market_filter=mf, name="__audit__", max_order_exposure=None, max_selection_exposure=None)
            fw.add_strategy(aud)
            tr.audit = aud
            for mw in case.get("_middlewares", ()):
                fw.add_market_middleware(mw(tr))
            fw.add_market_middleware(AuditMiddleware(tr))
        lr = case.get("line_results")
        if lr:

            class _LineResult(Middleware):
                def add_market(self, market):
                    if market.market_id in lr:
                        market.context["line_range_result"] = lr[market.market_id]

            fw.add_market_middleware(_LineResult())
        if pre_run:
            pre_run(fw, tr)
        import datetime as _dt

        real_dt = _dt.datetime
        try:
            fw.run()
        except BaseException as e:  # noqa
            tb = traceback.extract_tb(e.__traceback__)
            tr.abort = {"type": type(e).__name__, "msg": str(e)[:300], "stack": [f.name for f in tb if "/flumine/" in f.filename]}
        tr.datetime_restored = _dt.datetime is real_dt
        _dt.datetime = real_dt
        return tr
    finally:
        for k in _CONFIG_KEYS:
            setattr(fconfig, k, _CONFIG_DEFAULT[k])
        detach()
        shutil.rmtree(tmp, ignore_errors=True)
