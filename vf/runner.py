"""Sharding into worker subprocesses, verdict folding, evidence / replay writers, known-findings classifier."""
import os
import sys
import json
import time
import importlib
import subprocess
import tempfile
import collections

VERIF = os.path.dirname(os.path.dirname(os.path.abspath(__file__)))
PY = os.environ.get("VERIF_PYTHON", "/venv/bin/python")
NPROC = int(os.environ.get("VERIF_NPROC", "16"))
# evidence/ and replays/ are written here (sensitivity runs against scratch copies point it elsewhere)
OUT = os.environ.get("VERIF_OUT_DIR", VERIF)


def load_check(prop):
    return importlib.import_module("vf.checks.%s" % prop.lower())


def load_known():
    p = os.path.join(VERIF, "known_findings.json")
    if not os.path.exists(p):
        return {"findings": [], "fixed": []}
    with open(p) as f:
        return json.load(f)


def match_known(v, known):
    """A violation matches a listed finding iff property and rule are equal and every tag the entry
    lists has one of the listed values in the witness."""
    for k in known.get("findings", []):
        if k["property"] != v["property"] or k["rule"] != v["rule"]:
            continue
        ok = True
        for tag, allowed in k.get("tags", {}).items():
            if v.get("tags", {}).get(tag) not in allowed:
                ok = False
                break
        if ok:
            return k
    return None


def signature(v):
    return v["rule"] + "|" + ",".join("%s=%s" % (k, v["tags"][k]) for k in sorted(v.get("tags", {})))


def jsonable(x, depth=0):
    if depth > 12:
        return repr(x)
    if isinstance(x, (str, int, float, bool)) or x is None:
        return x
    if isinstance(x, dict):
        return {str(k): jsonable(v, depth + 1) for k, v in x.items()}
    if isinstance(x, (list, tuple, set, frozenset)):
        return [jsonable(v, depth + 1) for v in x]
    return repr(x)


# ------------------------------------------------------------------------------------------
# worker side
# ------------------------------------------------------------------------------------------


def worker_main(prop, shard_path, out_path):
    mod = load_check(prop)
    with open(shard_path) as f:
        cases = json.load(f)
    out = {
        "cases": 0,
        "violations": [],
        "viol_counts": collections.Counter(),
        "counters": collections.Counter(),
        "distinct": set(),
        "samples": [],
        "harness_errors": [],
        "wall": 0.0,
    }
    t0 = time.monotonic()
    budget = float(os.environ.get("VERIF_WORKER_BUDGET", "1e9"))
    for case in cases:
        if time.monotonic() - t0 > budget:
            out["counters"]["cases_skipped_budget"] += 1
            continue
        try:
            res = mod.run(case)
        except BaseException as e:  # harness failure: never a verdict on the repository
            import traceback

            out["harness_errors"].append({"case": case, "error": repr(e), "tb": traceback.format_exc()[-1500:]})
            continue
        out["cases"] += 1
        out["counters"].update(res.get("counters", {}))
        for d in res.get("distinct", ()):
            if len(out["distinct"]) < 200000:
                out["distinct"].add(d)
        for v in res.get("violations", ()):
            v.setdefault("property", prop)
            sig = signature(v)
            out["viol_counts"][sig] += 1
            if out["viol_counts"][sig] <= 2:
                out["violations"].append({"case": case, "violation": jsonable(v), "replay_extra": jsonable(res.get("replay_extra"))})
        if res.get("sample") is not None and len(out["samples"]) < 2:
            out["samples"].append(jsonable(res["sample"]))
    out["wall"] = time.monotonic() - t0
    out["distinct"] = sorted(out["distinct"])
    out["viol_counts"] = dict(out["viol_counts"])
    out["counters"] = dict(out["counters"])
    with open(out_path, "w") as f:
        json.dump(out, f)


# ------------------------------------------------------------------------------------------
# driver side
# ------------------------------------------------------------------------------------------


def run_check(prop, tier, seed, replay=None, nproc=None):
    t0 = time.monotonic()
    mod = load_check(prop)
    known = load_known()
    nproc = nproc or NPROC
    if replay:
        with open(replay) as f:
            rp = json.load(f)
        cases = [rp["case"]]
        nproc = 1
    else:
        cases = mod.plan(tier, seed)
    shards = [cases[i::nproc] for i in range(nproc)]
    shards = [s for s in shards if s]
    tmp = tempfile.mkdtemp(prefix="vfrun_")
    procs = []
    env = dict(os.environ)
    env["PYTHONDONTWRITEBYTECODE"] = "1"
    env.setdefault("PYTHONHASHSEED", "0")
    env["PYTHONPATH"] = VERIF + os.pathsep + env.get("PYTHONPATH", "")
    watchdog = getattr(mod, "WATCHDOG", {"quick": 600, "thorough": 3600})[tier]
    env["VERIF_WORKER_BUDGET"] = str(watchdog * 0.8)
    for i, shard in enumerate(shards):
        sp = os.path.join(tmp, "shard%d.json" % i)
        op = os.path.join(tmp, "out%d.json" % i)
        with open(sp, "w") as f:
            json.dump(shard, f)
        lp = open(os.path.join(tmp, "log%d.txt" % i), "w")
        p = subprocess.Popen([PY, "-m", "vf.worker", prop, sp, op], cwd=VERIF, env=env, stdout=lp, stderr=subprocess.STDOUT)
        procs.append((p, op, lp, i))
    inconclusive = []
    results = []
    deadline = time.monotonic() + watchdog
    for p, op, lp, i in procs:
        try:
            p.wait(timeout=max(1, deadline - time.monotonic()))
        except subprocess.TimeoutExpired:
            p.kill()
            inconclusive.append("worker %d hit the wall-clock watchdog (%ds)" % (i, watchdog))
            continue
        finally:
            lp.close()
        if p.returncode != 0 or not os.path.exists(op):
            with open(os.path.join(tmp, "log%d.txt" % i)) as f:
                tail = f.read()[-1500:]
            inconclusive.append("worker %d exited %s: %s" % (i, p.returncode, tail))
            continue
        with open(op) as f:
            results.append(json.load(f))
    # fold
    counters = collections.Counter()
    distinct = set()
    samples = []
    violations = []
    viol_counts = collections.Counter()
    harness_errors = []
    ncases = 0
    for r in results:
        ncases += r["cases"]
        counters.update(r["counters"])
        distinct.update(r["distinct"])
        samples.extend(r["samples"])
        violations.extend(r["violations"])
        viol_counts.update(r["viol_counts"])
        harness_errors.extend(r["harness_errors"])
    import shutil

    shutil.rmtree(tmp, ignore_errors=True)
    if harness_errors:
        inconclusive.append("%d harness errors, first: %s" % (len(harness_errors), harness_errors[0]["error"] + " " + harness_errors[0]["tb"][-600:]))
    if counters.get("cases_skipped_budget"):
        inconclusive.append("%d cases skipped: worker time budget exhausted" % counters["cases_skipped_budget"])
    # minimum observation counts
    for name, least in getattr(mod, "MINIMA", {}).get(tier, {}).items():
        if not replay and counters.get(name, 0) < least:
            inconclusive.append("monitor counter %s=%d below the stated minimum %d" % (name, counters.get(name, 0), least))
    # classify
    new, listed = [], collections.OrderedDict()
    for item in violations:
        v = item["violation"]
        k = match_known(v, known)
        if k is None:
            new.append(item)
        else:
            listed.setdefault(k["id"], (k, []))[1].append(item)
    exit_code = 0
    for kid, (k, items) in listed.items():
        n = sum(viol_counts[signature(i["violation"])] for i in {signature(i["violation"]): i for i in items}.values())
        print("KNOWN-FINDING: property=%s %s [%s; observed %d times in this run]" % (prop, k["what"], kid, n))
    if not replay:
        for k in known.get("findings", []):
            if k["property"] == prop and k["id"] not in listed:
                # every listed finding has a directed case in the plan; not seeing it means the defect is gone
                print("NOTE: listed finding %s was not observed in this run (repaired?)" % k["id"])
    seen_sig = set()
    rdir = os.path.join(OUT, "replays", prop)
    for item in new:
        sig = signature(item["violation"])
        if sig in seen_sig:
            continue
        seen_sig.add(sig)
        os.makedirs(rdir, exist_ok=True)
        import hashlib

        name = "%s-%s.json" % (seed, hashlib.sha1((json.dumps(item["case"], sort_keys=True) + sig).encode()).hexdigest()[:10])
        path = os.path.join(rdir, name)
        with open(path, "w") as f:
            json.dump({"property": prop, "tier": tier, "seed": seed, "case": item["case"], "violation": item["violation"], "extra": item.get("replay_extra"), "count": viol_counts[sig]}, f, indent=1)
        print("VIOLATION property=%s replay=%s rule=%s count=%d" % (prop, os.path.relpath(path, OUT), sig, viol_counts[sig]))
        exit_code = 1
    wall = time.monotonic() - t0
    if exit_code == 0 and inconclusive:
        exit_code = 2
        for r in inconclusive:
            print("INCONCLUSIVE property=%s reason=%s" % (prop, r.replace("\n", " | ")[:1200]))
    # evidence
    if not replay:
        rules = getattr(mod, "RULES", [])
        never = [r for r in rules if counters.get("rule_" + r, 0) == 0]
        ev = {
            "property_id": prop,
            "tier": tier,
            "seed": int(seed),
            "level": mod.LEVEL,
            "coverage": {
                "evaluations": int(ncases),
                "distinct_nontrivial": len(distinct),
                "rule": mod.DISTINCT_RULE,
                "samples": samples[:3] if samples else [{"note": "no sample recorded"}],
                "monitor_evaluations": {k: v for k, v in sorted(counters.items())},
                "rules_never_exercised": never,
                "known_findings_observed": {kid: len(items) for kid, (k, items) in listed.items()},
                "verdict": {0: "held on what was observed", 1: "violated", 2: "inconclusive"}[exit_code],
                "inconclusive_reasons": inconclusive,
            },
            "assumptions": getattr(mod, "ASSUMPTIONS", []),
            "wall_s": round(wall, 2),
            "violations": len(seen_sig),
        }
        if getattr(mod, "EXHAUSTIVE", False):
            ev["coverage"]["exhaustive"] = True
        os.makedirs(os.path.join(OUT, "evidence"), exist_ok=True)
        with open(os.path.join(OUT, "evidence", "%s.json" % prop), "w") as f:
            json.dump(ev, f, indent=1)
    print(
        "%s tier=%s seed=%s cases=%d distinct=%d violations(new)=%d known=%d wall=%.1fs verdict=%s"
        % (prop, tier, seed, ncases, len(distinct), len(seen_sig), len(listed), wall, {0: "HELD", 1: "VIOLATED", 2: "INCONCLUSIVE"}[exit_code])
    )
    return exit_code


def main(argv=None):
    import argparse

    ap = argparse.ArgumentParser()
    ap.add_argument("prop")
    ap.add_argument("--tier", default=os.environ.get("VERIF_TIER", "quick"), choices=["quick", "thorough"])
    ap.add_argument("--seed", type=int, default=int(os.environ.get("VERIF_SEED", "0")))
    ap.add_argument("--replay")
    ap.add_argument("--nproc", type=int)
    a = ap.parse_args(argv)
    sys.exit(run_check(a.prop.upper(), a.tier, a.seed, a.replay, a.nproc))
