"""Wire-level harness: a real betfairlightweight.APIClient talks JSON-RPC over HTTP to a small server on 127.0.0.1 (loopback only), so
that what is counted is what actually arrives on the wire - below the `betting.place_orders(...)` call the other doubles replace."""
import http.server
import json
import threading


class WireExchange:
    def __init__(self):
        self.lock = threading.Lock()
        self.requests = []  # {"method", "customerRef", "n": arrival index}
        self.fail = lambda req: None  # -> None (answer) | "503" | "drop"
        self.bet_id = 700000000000
        outer = self

        class Handler(http.server.BaseHTTPRequestHandler):
            protocol_version = "HTTP/1.1"

            def log_message(self, *a):
                pass

            def do_POST(self):
                body = json.loads(self.rfile.read(int(self.headers["Content-Length"])))
                method = body["method"].split("/")[-1]
                params = body["params"]
                with outer.lock:
                    req = {"method": method, "customerRef": params.get("customerRef"), "n": len(outer.requests), "instructions": params.get("instructions")}
                    req["attempt"] = 1 + sum(1 for r in outer.requests if r["method"] == method and r["customerRef"] == req["customerRef"])
                    outer.requests.append(req)
                    how = outer.fail(req)
                if how == "503":
                    payload = b"Service Unavailable"
                    self.send_response(503)
                    self.send_header("Content-Length", str(len(payload)))
                    self.end_headers()
                    self.wfile.write(payload)
                    return
                if how == "drop":
                    self.close_connection = True
                    try:
                        self.connection.shutdown(2)
                    except OSError:
                        pass
                    return
                reports = []
                for ins in params["instructions"]:
                    if method == "placeOrders":
                        with outer.lock:
                            outer.bet_id += 1
                            bid = str(outer.bet_id)
                        reports.append({"status": "SUCCESS", "instruction": ins, "betId": bid, "placedDate": "2022-04-19T12:00:00.000Z", "averagePriceMatched": 0.0, "sizeMatched": 0.0, "orderStatus": "EXECUTABLE"})
                    elif method == "cancelOrders":
                        reports.append({"status": "SUCCESS", "instruction": ins, "sizeCancelled": 2.0, "cancelledDate": "2022-04-19T12:00:01.000Z"})
                    elif method == "updateOrders":
                        reports.append({"status": "SUCCESS", "instruction": ins})
                    else:
                        reports.append({"status": "FAILURE", "errorCode": "ERROR_IN_ORDER", "instruction": ins})
                payload = json.dumps({"jsonrpc": "2.0", "id": 1, "result": {"customerRef": params.get("customerRef"), "status": "SUCCESS", "marketId": params.get("marketId"), "instructionReports": reports}}).encode()
                self.send_response(200)
                self.send_header("Content-Type", "application/json")
                self.send_header("Content-Length", str(len(payload)))
                self.end_headers()
                self.wfile.write(payload)

        self.server = http.server.ThreadingHTTPServer(("127.0.0.1", 0), Handler)
        self.server.daemon_threads = True
        self.thread = threading.Thread(target=self.server.serve_forever, daemon=True)
        self.thread.start()
        self.uri = "http://127.0.0.1:%d/exchange/" % self.server.server_address[1]

    def close(self):
        self.server.shutdown()
        self.server.server_close()


def api_client(wex, username="wire0"):
    import betfairlightweight

    t = betfairlightweight.APIClient(username, "pw", app_key="key")
    t.api_uri = wex.uri
    t.session_token = "token"
    return t
