"""Synthetic Betfair stream files (G-file) and an independent reader of such files.

Writer: `MarketFile` keeps a generator-side model of one market and emits `op:mcm` lines.
Reader: `read_lines` replays raw lines into plain dict snapshots.  It does not use
betfairlightweight or flumine, so oracles fed from it are independent of the code under test.
"""
import copy
import json
import datetime

from . import ladder as L

_BASE_MD = {
    "bspMarket": True,
    "turnInPlayEnabled": True,
    "persistenceEnabled": True,
    "marketBaseRate": 5,
    "eventId": "30000001",
    "eventTypeId": "7",
    "numberOfWinners": 1,
    "bettingType": "ODDS",
    "marketType": "WIN",
    "marketTime": "2022-04-19T18:26:00.000Z",
    "suspendTime": "2022-04-19T18:26:00.000Z",
    "bspReconciled": False,
    "complete": True,
    "inPlay": False,
    "crossMatching": True,
    "runnersVoidable": False,
    "numberOfActiveRunners": 0,
    "betDelay": 0,
    "status": "OPEN",
    "runners": [],
    "regulators": ["MR_INT"],
    "venue": "Verif",
    "countryCode": "GB",
    "discountAllowed": True,
    "timezone": "Europe/London",
    "openDate": "2022-04-19T17:19:00.000Z",
    "version": 1000,
    "priceLadderDefinition": {"type": "CLASSIC"},
}

T0 = 1650392673000  # ms; 2022-04-19T18:24:33Z


def iso(ms):
    return datetime.datetime.utcfromtimestamp(ms / 1000).strftime("%Y-%m-%dT%H:%M:%S.") + "%03dZ" % (ms % 1000)


class MarketFile:
    def __init__(
        self,
        market_id,
        runners,  # list of (selection_id, handicap, adjustment_factor or None)
        event_id="30000001",
        market_type="WIN",
        number_of_winners=1,
        bsp=True,
        persistence=True,
        betting_type="ODDS",
        ladder="CLASSIC",
        each_way_divisor=None,
        line=None,  # (min, max, interval)
        bet_delay=0,
        version=1000,
        market_time_ms=T0 + 600_000,
        event_type_id="7",
    ):
        self.market_id = market_id
        md = copy.deepcopy(_BASE_MD)
        md.update(
            eventId=event_id,
            eventTypeId=event_type_id,
            marketType=market_type,
            numberOfWinners=number_of_winners,
            bspMarket=bsp,
            persistenceEnabled=persistence,
            bettingType=betting_type,
            betDelay=bet_delay,
            version=version,
            marketTime=iso(market_time_ms),
            suspendTime=iso(market_time_ms),
            priceLadderDefinition={"type": ladder},
        )
        if each_way_divisor is not None:
            md["eachWayDivisor"] = each_way_divisor
        if line is not None:
            md["lineMinUnit"], md["lineMaxUnit"], md["lineInterval"] = line
        for i, (sel, hc, af) in enumerate(runners):
            r = {"status": "ACTIVE", "sortPriority": i + 1, "id": sel}
            if hc:
                r["hc"] = hc
            if af is not None:
                r["adjustmentFactor"] = af
            md["runners"].append(r)
        md["numberOfActiveRunners"] = len(runners)
        self.md = md
        self.keys = [(sel, hc) for sel, hc, _ in runners]
        self.books = {k: {"atb": {}, "atl": {}, "trd": {}, "ltp": None} for k in self.keys}
        self.lines = []
        self._clk = 0
        self.started = False

    # -- low level -------------------------------------------------------------------------
    def _runner_md(self, key):
        for r in self.md["runners"]:
            if (r["id"], r.get("hc", 0)) == key:
                return r
        raise KeyError(key)

    def emit(self, pt, md_changes=None, runner_md=None, rc=None, img=False, force_md=False):
        """Append one line.  md_changes: dict of marketDefinition fields; runner_md:
        {key: {field: value}}; rc: {key: {"atb": {p: s}, "atl": {p: s}, "trd": {p: cum}, "ltp": p}}
        with size 0 deleting a level (trd values are cumulative)."""
        mc = {"id": self.market_id}
        with_md = force_md or bool(md_changes) or bool(runner_md) or not self.started
        if md_changes:
            self.md.update(md_changes)
        if runner_md:
            for key, ch in runner_md.items():
                self._runner_md(key).update(ch)
            self.md["numberOfActiveRunners"] = sum(1 for r in self.md["runners"] if r["status"] == "ACTIVE")
        if with_md:
            mc["marketDefinition"] = copy.deepcopy(self.md)
        rcs = []
        if not self.started or img:
            img = True
            if rc:
                self._apply_rc(rc)
            for key in self.keys:
                b = self.books[key]
                e = {"id": key[0]}
                if key[1]:
                    e["hc"] = key[1]
                for side in ("atb", "atl", "trd"):
                    if b[side]:
                        e[side] = [[p, s] for p, s in b[side].items()]
                if b["ltp"] is not None:
                    e["ltp"] = b["ltp"]
                e["tv"] = round(sum(b["trd"].values()), 2)
                rcs.append(e)
        elif rc:
            self._apply_rc(rc)
            for key, ch in rc.items():
                e = {"id": key[0]}
                if key[1]:
                    e["hc"] = key[1]
                for side in ("atb", "atl", "trd"):
                    if ch.get(side):
                        e[side] = [[p, s] for p, s in ch[side].items()]
                if "ltp" in ch:
                    e["ltp"] = ch["ltp"]
                if ch.get("trd"):
                    e["tv"] = round(sum(self.books[key]["trd"].values()), 2)
                rcs.append(e)
        if rcs:
            mc["rc"] = rcs
        if img:
            mc["img"] = True
        self._clk += 1
        self.lines.append({"op": "mcm", "clk": "C%d" % self._clk, "pt": int(pt), "mc": [mc]})
        self.started = True

    def _apply_rc(self, rc):
        for key, ch in rc.items():
            b = self.books[key]
            for side in ("atb", "atl", "trd"):
                for p, s in (ch.get(side) or {}).items():
                    if s == 0:
                        b[side].pop(p, None)
                    else:
                        b[side][p] = s
            if "ltp" in ch:
                b["ltp"] = ch["ltp"]

    # -- helpers ---------------------------------------------------------------------------
    def clear_books_rc(self):
        rc = {}
        for key in self.keys:
            b = self.books[key]
            ch = {}
            for side in ("atb", "atl"):
                if b[side]:
                    ch[side] = {p: 0 for p in b[side]}
            if ch:
                rc[key] = ch
        return rc

    def best_back(self, key):
        b = self.books[key]["atb"]
        return max(b) if b else None

    def best_lay(self, key):
        b = self.books[key]["atl"]
        return min(b) if b else None

    def text(self):
        return "\n".join(json.dumps(l, separators=(",", ":")) for l in self.lines) + "\n"

    def write(self, directory):
        import os

        path = os.path.join(directory, self.market_id)
        with open(path, "w") as f:
            f.write(self.text())
        return path


# ------------------------------------------------------------------------------------------
# independent reader
# ------------------------------------------------------------------------------------------


def read_lines(lines, market_id=None):
    """Replay raw stream lines (str or dict).  Returns a list of snapshots, one per line that
    mentions the market: dict(pt, status, inplay, version, bet_delay, bsp_reconciled,
    number_of_winners, market_type, md, runners={(id,hc): dict(status, af, bsp, atb, atl, trd, ltp)})."""
    snaps = []
    md = None
    runners = {}
    for raw in lines:
        d = json.loads(raw) if isinstance(raw, str) else raw
        if d.get("op") != "mcm" or "mc" not in d:
            continue
        for mc in d["mc"]:
            if market_id is not None and mc.get("id") != market_id:
                continue
            if mc.get("img"):
                runners = {}
            if "marketDefinition" in mc:
                md = mc["marketDefinition"]
                for r in md.get("runners", []):
                    key = (r["id"], r.get("hc", 0))
                    st = runners.setdefault(key, {"atb": {}, "atl": {}, "trd": {}, "ltp": None})
                    st["status"] = r.get("status")
                    st["af"] = r.get("adjustmentFactor")
                    st["bsp"] = r.get("bsp")
            for e in mc.get("rc", []):
                key = (e["id"], e.get("hc", 0))
                st = runners.setdefault(key, {"atb": {}, "atl": {}, "trd": {}, "ltp": None, "status": None, "af": None, "bsp": None})
                for side in ("atb", "atl"):
                    for p, s in e.get(side, []):
                        if s == 0:
                            st[side].pop(p, None)
                        else:
                            st[side][p] = s
                if "trd" in e:
                    if not e["trd"]:
                        st["trd"] = {}
                    for p, s in e["trd"]:
                        if s == 0:
                            st["trd"].pop(p, None)
                        else:
                            st["trd"][p] = s
                if "ltp" in e:
                    st["ltp"] = e["ltp"]
            snaps.append(
                {
                    "pt": d["pt"],
                    "id": mc.get("id"),
                    "status": md.get("status") if md else None,
                    "inplay": md.get("inPlay") if md else None,
                    "version": md.get("version") if md else None,
                    "bet_delay": md.get("betDelay") if md else None,
                    "bsp_reconciled": md.get("bspReconciled") if md else None,
                    "number_of_winners": md.get("numberOfWinners") if md else None,
                    "market_type": md.get("marketType") if md else None,
                    "market_time": md.get("marketTime") if md else None,
                    "md": md,
                    "runners": copy.deepcopy(runners),
                }
            )
    return snaps


def read_file(path, market_id=None):
    with open(path) as f:
        return read_lines(f.readlines(), market_id)


# ------------------------------------------------------------------------------------------
# random director
# ------------------------------------------------------------------------------------------

DEFAULTS = dict(
    n_runners=(2, 5),
    n_pre=(4, 14),  # updates before any in-play turn
    n_inplay=(0, 8),
    p_inplay=0.5,
    p_suspend_reopen=0.3,  # per market, a SUSPENDED -> OPEN cycle with version change
    p_no_bsp=0.0,  # at the off a runner gets no actual starting price (nothing was offered at SP on it)
    p_keep_books=0.0,  # at a suspension (also the one at the off) the ladders are left as they are and not sent again on re-opening
    p_removal=0.0,
    p_bsp=0.8,
    p_persistence=0.8,
    spacing_ms=(1, 1, 40, 120, 250, 800, 2500, 20000),
    p_trade=0.6,
    p_book_change=0.7,
    depth=(0, 4),
    p_gap=0.3,
    sizes=(0.01, 1.5, 2, 5, 12.34, 40, 250, 3000),
    market_types=("WIN",),
    winners=(1,),
    af=True,  # runners carry adjustment factors
    close=True,
    handicaps=False,
    inplay_bet_delay=(1, 5, 12),
    pre_bet_delay=(0,),
    repeat_unchanged=0.1,
    trade_levels=(1, 1, 2, 3),
    market_time_offsets=(30_000, 600_000),
    p_same_pt=0.0,  # consecutive updates with one publish time
    p_reschedule=0.0,  # the market time is moved by a marketDefinition delta (no image) before the off
    reschedule_ms=(-20_000, -5_000, 5_000, 60_000),
)


class Director:
    """Random but well-formed market history.  All randomness comes from `rng`."""

    def __init__(self, rng, market_id, params=None, event_id="30000001", t0=T0, selection_ids=None):
        self.rng = rng
        p = dict(DEFAULTS)
        p.update(params or {})
        self.p = p
        n = rng.randint(*p["n_runners"])
        sels = selection_ids or [1000 + 7 * i + rng.randint(0, 3) for i in range(n)]
        sels = sels[:n] if selection_ids else sels
        market_type = rng.choice(p["market_types"])
        winners = rng.choice(p["winners"])
        if market_type in ("PLACE", "OTHER_PLACE"):
            winners = max(2, min(winners, max(1, len(sels) - 1)))
        afs = self._adjustment_factors(len(sels)) if p["af"] else [None] * len(sels)
        hcs = [0] * len(sels)
        if p["handicaps"] == "lines":
            # handicap market: the same selection id appears on several lines (which settle independently)
            # (the level line 0.0 appears in first, middle and last position)
            base = sels[: max(1, len(sels) // 2)]
            lines = rng.choice(((-0.5, 0.5), (-1.0, 0.0, 1.0), (0.5, 0.0), (0.0, -1.5), (-0.5, 0.5)))
            sels = [s_ for s_ in base for _ in lines]
            hcs = [h for _ in base for h in lines]
            afs = (afs * len(lines))[: len(sels)] if afs[0] is not None else [None] * len(sels)
        elif p["handicaps"]:
            hcs = [rng.choice((0, -1.5, 2.0)) for _ in sels]
        self.mf = MarketFile(
            market_id,
            [(s, h, a) for s, h, a in zip(sels, hcs, afs)],
            event_id=event_id,
            market_type=market_type,
            number_of_winners=winners,
            bsp=rng.random() < p["p_bsp"],
            persistence=rng.random() < p["p_persistence"],
            each_way_divisor=rng.choice((4, 5)) if market_type == "EACH_WAY" else None,
            bet_delay=rng.choice(p["pre_bet_delay"]),
            version=rng.randint(1000, 9000),
            market_time_ms=self._set_mt0(t0 + rng.choice(p["market_time_offsets"])),
        )
        self.t = t0
        self.mid = {k: rng.randint(20, 250) for k in self.mf.keys}  # ladder index of the mid
        self.removed = []

    def _adjustment_factors(self, n):
        raw = [self.rng.random() + 0.05 for _ in range(n)]
        tot = sum(raw)
        return [round(100 * x / tot, 2) for x in raw]

    # ---- steps ----
    def step_time(self):
        if self.p["p_same_pt"] and self.mf.started and self.rng.random() < self.p["p_same_pt"]:
            return self.t  # two consecutive updates of the market carry the same publish time
        self.t += self.rng.choice(self.p["spacing_ms"])
        return self.t

    def _rand_size(self):
        return self.rng.choice(self.p["sizes"])

    def book_for(self, key):
        """Fresh two-sided ladder around the runner's mid; returns rc change dict replacing the book."""
        rng = self.rng
        mid = self.mid[key]
        ch = {"atb": {p: 0 for p in self.mf.books[key]["atb"]}, "atl": {p: 0 for p in self.mf.books[key]["atl"]}}
        i = mid - 1
        for _ in range(rng.randint(*self.p["depth"])):
            if i < 0:
                break
            ch["atb"][L.CLASSIC[i]] = self._rand_size()
            i -= 1 + (rng.randint(1, 4) if rng.random() < self.p["p_gap"] else 0)
        i = mid + 1
        for _ in range(rng.randint(*self.p["depth"])):
            if i >= len(L.CLASSIC):
                break
            ch["atl"][L.CLASSIC[i]] = self._rand_size()
            i += 1 + (rng.randint(1, 4) if rng.random() < self.p["p_gap"] else 0)
        return ch

    def trades_for(self, key, n_levels=None):
        rng = self.rng
        mid = self.mid[key]
        trd = {}
        for _ in range(n_levels or rng.choice(self.p["trade_levels"])):
            i = max(0, min(len(L.CLASSIC) - 1, mid + rng.randint(-3, 3)))
            p = L.CLASSIC[i]
            delta = rng.choice((0.02, 0.5, 2, 4.44, 10, 36, 200))
            prev = trd.get(p, self.mf.books[key]["trd"].get(p, 0))
            trd[p] = round(prev + delta, 2)
        return {"trd": trd, "ltp": p}

    def active_keys(self):
        return [k for k in self.mf.keys if self.mf._runner_md(k)["status"] == "ACTIVE"]

    def open_tick(self, img=False):
        rng = self.rng
        rc = {}
        for key in self.active_keys():
            ch = {}
            if rng.random() < self.p["p_book_change"] or not self.mf.started:
                self.mid[key] = max(3, min(len(L.CLASSIC) - 4, self.mid[key] + rng.randint(-2, 2)))
                ch.update(self.book_for(key))
            if self.mf.started and rng.random() < self.p["p_trade"]:
                ch.update(self.trades_for(key))
            if ch:
                rc[key] = ch
        if self.mf.started and rng.random() < self.p["repeat_unchanged"]:
            rc = {}
        self.mf.emit(self.step_time(), rc=rc, img=img)

    def suspend(self, version_bump=True, extra=None):
        ch = {"status": "SUSPENDED"}
        if version_bump:
            ch["version"] = self.mf.md["version"] + self.rng.randint(1, 50)
        ch.update(extra or {})
        self._kept = self.rng.random() < self.p["p_keep_books"] if self.p["p_keep_books"] else False
        self.mf.emit(self.step_time(), md_changes=ch, rc={} if self._kept else self.mf.clear_books_rc())

    def reopen(self, extra=None):
        ch = {"status": "OPEN"}
        ch.update(extra or {})
        rc = {}
        if not getattr(self, "_kept", False):
            for key in self.active_keys():
                rc[key] = self.book_for(key)
        self._kept = False
        self.mf.emit(self.step_time(), md_changes=ch, rc=rc)

    def remove_runner(self, key, factor="own", with_suspend=False):
        rmd = self.mf._runner_md(key)
        ch = {"status": "REMOVED", "removalDate": iso(self.t)}
        if factor != "own":
            if factor is None:
                rmd.pop("adjustmentFactor", None)
            else:
                ch["adjustmentFactor"] = factor
        rc = {key: {"atb": {p: 0 for p in self.mf.books[key]["atb"]}, "atl": {p: 0 for p in self.mf.books[key]["atl"]}}}
        mdc = {"version": self.mf.md["version"] + self.rng.randint(1, 50)}
        if with_suspend:
            mdc["status"] = "SUSPENDED"
        self.mf.emit(self.step_time(), md_changes=mdc, runner_md={key: ch}, rc=rc)
        self.removed.append(key)

    def turn_inplay(self):
        """SUSPENDED (bsp reconciled if a BSP market) -> OPEN in play with a bet delay."""
        rng = self.rng
        runner_md = {}
        extra = {}
        if self.mf.md["bspMarket"]:
            extra["bspReconciled"] = True
            for key in self.active_keys():
                sp = round(L.CLASSIC[self.mid[key]] * rng.choice((0.8, 1.0, 1.0, 1.3)) + rng.random() * 0.01, 4)
                if self.p["p_no_bsp"] and rng.random() < self.p["p_no_bsp"]:
                    continue
                runner_md[key] = {"bsp": max(1.01, sp)}
        ch = {"status": "SUSPENDED", "version": self.mf.md["version"] + rng.randint(1, 50)}
        ch.update(extra)
        self._kept = rng.random() < self.p["p_keep_books"] if self.p["p_keep_books"] else False
        self.mf.emit(self.step_time(), md_changes=ch, runner_md=runner_md, rc={} if self._kept else self.mf.clear_books_rc())
        self.reopen(extra={"inPlay": True, "betDelay": rng.choice(self.p["inplay_bet_delay"])})

    def close(self, winners=None, repeat=0, statuses=None):
        rng = self.rng
        if self.mf.md["status"] != "SUSPENDED":
            self.suspend(version_bump=True)
        act = self.active_keys()
        nw = self.mf.md["numberOfWinners"]
        if statuses is None:
            if winners is None:
                k = min(len(act), nw)
                winners = rng.sample(act, k) if act else []
            statuses = {key: ("WINNER" if key in winners else "LOSER") for key in act}
        runner_md = {key: {"status": st} for key, st in statuses.items()}
        self.mf.emit(
            self.step_time(),
            md_changes={"status": "CLOSED", "version": self.mf.md["version"] + 1, "settledTime": iso(self.t)},
            runner_md=runner_md,
        )
        for _ in range(repeat):
            self.mf.emit(self.step_time(), force_md=True)

    def _set_mt0(self, ms):
        self._market_time_ms0 = ms
        return ms

    def reopen_after_close(self, ticks=(1, 4)):
        """a CLOSED market comes back: new image with the settled runners ACTIVE again (removed ones stay removed)"""
        mf = self.mf
        st = {k: {"status": "ACTIVE"} for k in mf.keys if mf._runner_md(k)["status"] in ("WINNER", "LOSER", "PLACED")}
        rc = {k: self.book_for(k) for k in st}
        mf.emit(self.step_time(), md_changes={"status": "OPEN", "version": mf.md["version"] + 1}, runner_md=st, rc=rc, img=True)
        for _ in range(self.rng.randint(*ticks)):
            self.open_tick()

    # ---- whole history ----
    def run(self):
        rng, p = self.rng, self.p
        n_pre = rng.randint(*p["n_pre"])
        susp_at = rng.randrange(1, n_pre) if (n_pre > 1 and rng.random() < p["p_suspend_reopen"]) else None
        rem_at = rng.randrange(1, n_pre) if (n_pre > 1 and rng.random() < p["p_removal"]) else None
        resch_at = rng.randrange(1, n_pre) if (n_pre > 1 and rng.random() < p["p_reschedule"]) else None
        for i in range(n_pre):
            if i == resch_at:
                self.market_time_ms = getattr(self, "market_time_ms", self._market_time_ms0) + rng.choice(p["reschedule_ms"])
                self.mf.emit(self.step_time(), md_changes={"marketTime": iso(self.market_time_ms), "suspendTime": iso(self.market_time_ms)})
            if i == susp_at:
                self.suspend()
                self.reopen()
            if i == rem_at and len(self.active_keys()) > 2:
                self.remove_runner(rng.choice(self.active_keys()))
            self.open_tick()
        if rng.random() < p["p_inplay"]:
            self.turn_inplay()
            for _ in range(rng.randint(*p["n_inplay"])):
                self.open_tick()
        if p["close"]:
            self.close()
        return self.mf


# ------------------------------------------------------------------------------------------
# G-mut: mutated recordings (realistic ladders from tests/resources with hostile events spliced in)
# ------------------------------------------------------------------------------------------

RECORDED = ("1.197931750", "1.197931751")  # greyhound WIN + PLACE of one event, 166 lines each, 1 s apart


def load_recording(repo_root, market_id):
    import os

    path = os.path.join(repo_root, "tests", "resources", market_id)
    if not os.path.exists(path):  # scratch copies of the repository may leave the data files out
        path = os.path.join("/repo", "tests", "resources", market_id)
    with open(path) as f:
        return [json.loads(l) for l in f if l.strip()]


def mutate_recording(lines, rng, p_suspend=0.5, p_removal=0.4, truncate=True):
    """Splice version-changing SUSPEND -> re-OPEN cycles and a runner removal (with a factor) into a recorded file.
    New lines carry the latest marketDefinition with the change and get a publish time between their neighbours."""
    lines = copy.deepcopy(lines)
    mid = lines[0]["mc"][0]["id"]
    md = copy.deepcopy(lines[0]["mc"][0]["marketDefinition"])
    if truncate:
        # keep the head and the closing tail: shorter runs, same ladders
        keep = rng.randint(20, 60)
        lines = lines[:keep] + lines[-2:]
        for j, l in enumerate(lines[-2:]):
            l["pt"] = lines[keep - 1]["pt"] + 1000 * (j + 1)
    out = []
    n = len(lines)
    sus_at = rng.randrange(3, n - 3) if rng.random() < p_suspend else None
    rem_at = rng.randrange(3, n - 3) if rng.random() < p_removal else None
    removed = None
    clk = 0
    for i, l in enumerate(lines):
        mc = l["mc"][0]
        if "marketDefinition" in mc:
            new = mc["marketDefinition"]
            if removed is not None:
                for r in new["runners"]:
                    if r["id"] == removed[0]:
                        r["status"] = "REMOVED"
                        r["adjustmentFactor"] = removed[1]
                        r["removalDate"] = removed[2]
                    elif removed[1] is not None:
                        r.setdefault("adjustmentFactor", removed[3].get(r["id"]))
                new["numberOfActiveRunners"] = sum(1 for r in new["runners"] if r["status"] == "ACTIVE")
            md = copy.deepcopy(new)
        out.append(l)
        if i in (sus_at, rem_at) and i + 1 < n - 2:
            t = l["pt"]
            gap = max(2, lines[i + 1]["pt"] - t)
            if i == rem_at and removed is None:
                act = [r for r in md["runners"] if r["status"] == "ACTIVE"]
                if len(act) > 3:
                    victim = rng.choice(act)
                    f = rng.choice((None, 2.4, 2.5, 14.0, 40.0))
                    others = {}
                    if f is not None:
                        share = (100.0 - f) / (len(act) - 1)
                        others = {r["id"]: round(share, 2) for r in act if r["id"] != victim["id"]}
                    removed = (victim["id"], f, iso(t), others)
                    md2 = copy.deepcopy(md)
                    for r in md2["runners"]:
                        if r["id"] == victim["id"]:
                            r["status"] = "REMOVED"
                            r["removalDate"] = iso(t)
                            if f is not None:
                                r["adjustmentFactor"] = f
                        elif f is not None:
                            r["adjustmentFactor"] = others[r["id"]]
                    md2["numberOfActiveRunners"] = len(act) - 1
                    md2["version"] = md["version"] + 7
                    md = md2
                    clk += 1
                    out.append({"op": "mcm", "clk": "M%d" % clk, "pt": t + gap // 3, "mc": [{"id": mid, "marketDefinition": copy.deepcopy(md)}]})
            if i == sus_at:
                md2 = copy.deepcopy(md)
                md2["status"] = "SUSPENDED"
                md2["version"] = md["version"] + 3
                clk += 1
                out.append({"op": "mcm", "clk": "M%d" % clk, "pt": t + gap // 2, "mc": [{"id": mid, "marketDefinition": copy.deepcopy(md2)}]})
                md3 = copy.deepcopy(md2)
                md3["status"] = "OPEN"
                md = md3
                clk += 1
                out.append({"op": "mcm", "clk": "M%d" % clk, "pt": t + gap // 2 + max(1, gap // 4), "mc": [{"id": mid, "marketDefinition": copy.deepcopy(md3)}]})
    return out
