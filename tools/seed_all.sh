#!/bin/bash
# Re-run every kept seeded change against its property's own check (quick tier, seed 0): tools/seed_all.sh [pattern]
cd "$(dirname "$0")/.."
pat="${1:-C}"
for d in seeded/${pat}*/; do
  id=$(basename "$d")
  if grep -q '"neutralised_by_fix"' "$d/meta.json" 2>/dev/null; then echo "$id NEUTRALISED-BY-FIX (see meta.json)"; continue; fi
  if grep -q '"not_caught"' "$d/meta.json" 2>/dev/null; then echo "$id NOT-CAUGHT-DOCUMENTED (see meta.json)"; continue; fi
  prop=${id%%-*}
  by=$(python3 -c "import json,sys; print(json.load(open('$d/meta.json')).get('caught_by',''))" 2>/dev/null)
  k=${id#*-}; suffix=""
  case "$k" in *r2) suffix=r2; k=${k%r2};; *r3) suffix=r3; k=${k%r3};; esac
  chk="${by:-$prop}"
  all=$(tools/seed_eval.py "$prop" "$k" ${suffix:+--suffix $suffix} --skip-confirm --checks "$chk" 2>&1)
  res=$(echo "$all" | grep -E "^$chk exit=" | head -1)
  case "$res" in
    *"exit=1"*) echo "$id CAUGHT${by:+ (by $by)}";;
    "") echo "$id PATCH-DOES-NOT-APPLY (re-base it on the current tree) :: $(echo "$all" | tail -1 | cut -c1-120)";;
    *) echo "$id MISSED :: $res";;
  esac
done
