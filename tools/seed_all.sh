#!/bin/bash
# Re-run every kept seeded change against its property's own check (quick tier, seed 0): tools/seed_all.sh [pattern]
cd "$(dirname "$0")/.."
pat="${1:-C}"
for d in seeded/${pat}*/; do
  id=$(basename "$d")
  prop=${id%%-*}
  k=${id#*-}; suffix=""
  case "$k" in *r2) suffix=r2; k=${k%r2};; *r3) suffix=r3; k=${k%r3};; esac
  res=$(tools/seed_eval.py "$prop" "$k" ${suffix:+--suffix $suffix} --skip-confirm --checks "$prop" 2>&1 | grep -E "^$prop exit=" | head -1)
  case "$res" in *"exit=1"*) echo "$id CAUGHT";; *) echo "$id MISSED :: $res";; esac
done
