#!/bin/sh
# tools/sweep.sh "<seeds>" [tier] [checks...]  - run checks over several seeds, print one line per run
cd "$(dirname "$0")/.." || exit 3
SEEDS="$1"; TIER="${2:-quick}"; shift; shift
CHECKS="${*:-C01 C02 C03 C04 C05 C06 C07 C08 C09 C10 C11 C12 C13 C14 C15 C16 C17 C18 C19 C20}"
for c in $CHECKS; do for s in $SEEDS; do
  out=$(VERIF_OUT_DIR=/tmp/vfsweep ./check $c --tier $TIER --seed $s 2>&1)
  echo "$out" | grep -E "^(VIOLATION|INCONCLUSIVE)" | cut -c1-300
  echo "$out" | tail -1
done; done
rm -rf /tmp/vfsweep
