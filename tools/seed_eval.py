#!/usr/bin/env python3
"""Confirm an independently seeded breaking change and run checks against it.

  tools/seed_eval.py C02 1 [--checks C02,C03] [--tier quick] [--name short-name]

1. in the sub-agent's worktree /tmp/wt_<prop>: apply OUT/patch<k>.diff, run the repository's test suite (must give
   976 passed / the 5 data-file failures), run OUT/demo<k>.py (must fail), undo, run the demo again (must pass);
2. copy patch / demo / meta to /verif/seeded/<prop>-<k>/ with what was run;
3. run the named checks (default: the property's own) on a scratch copy of /repo with the patch applied.
"""
import argparse, json, os, shutil, subprocess, sys, tempfile, glob

ap = argparse.ArgumentParser()
ap.add_argument("prop")
ap.add_argument("k")
ap.add_argument("--checks")
ap.add_argument("--tier", default="quick")
ap.add_argument("--seed", default="0")
ap.add_argument("--skip-confirm", action="store_true")
ap.add_argument("--wt", default="wt")
ap.add_argument("--suffix", default="")
a = ap.parse_args()
VERIF = os.path.dirname(os.path.dirname(os.path.abspath(__file__)))
wt = "/tmp/%s_%s" % (a.wt, a.prop)
out = os.path.join(wt, "OUT")
patch = os.path.join(out, "patch%s.diff" % a.k)
demo = os.path.join(out, "demo%s.py" % a.k)
dest = os.path.join(VERIF, "seeded", "%s-%s%s" % (a.prop, a.k, a.suffix))
PY = "/venv/bin/python"


def sh(cmd, cwd=None, timeout=900):
    r = subprocess.run(cmd, shell=True, cwd=cwd, capture_output=True, text=True, timeout=timeout)
    return r.returncode, (r.stdout + r.stderr)


ran = {}
if not a.skip_confirm:
    assert sh("git status --porcelain -- flumine tests", wt)[1].strip() == "", "worktree not clean"
    rc, o = sh("git apply %s" % patch, wt)
    assert rc == 0, o
    try:
        rc, o = sh("%s -m pytest -q -p no:cacheprovider 2>&1 | tail -8" % PY, wt)
        last = o.strip().splitlines()[-1]
        ran["tests_with_patch"] = last
        failed = sorted(l.split(" ")[1] for l in o.splitlines() if l.startswith("FAILED"))
        ran["failed_tests"] = failed
        rc1, o1 = sh("%s %s" % (PY, demo), wt, 300)
        ran["demo_with_patch_exit"] = rc1
        ran["demo_with_patch_tail"] = o1.strip().splitlines()[-3:]
    finally:
        sh("git checkout -- flumine tests", wt)
    rc0, o0 = sh("%s %s" % (PY, demo), wt, 300)
    ran["demo_without_patch_exit"] = rc0
    ok = "976 passed" in ran["tests_with_patch"] and "5 failed" in ran["tests_with_patch"] and rc1 != 0 and rc0 == 0
    ran["confirmed"] = ok
    print("confirm:", json.dumps(ran)[:600])
    if not ok:
        print("NOT CONFIRMED - not kept")
        sys.exit(2)
    os.makedirs(dest, exist_ok=True)
    shutil.copy(patch, os.path.join(dest, "patch.diff"))
    shutil.copy(demo, os.path.join(dest, "demo.py"))
    for extra in glob.glob(os.path.join(out, "*")):
        b = os.path.basename(extra)
        if os.path.isfile(extra) and b not in ("PROPERTY.txt",) and not b.startswith(("patch", "demo", "meta")) and os.path.getsize(extra) < 200000:
            shutil.copy(extra, os.path.join(dest, b))
    meta = {}
    mp = os.path.join(out, "meta%s.json" % a.k)
    if os.path.exists(mp):
        try:
            meta = json.load(open(mp))
        except Exception:
            meta = {"raw": open(mp).read()[:2000]}
    meta["property"] = a.prop
    meta["confirmed_by_builder"] = ran
    json.dump(meta, open(os.path.join(dest, "meta.json"), "w"), indent=1)
else:
    patch = os.path.join(dest, "patch.diff")
# 3. run checks on a scratch copy
checks = (a.checks or a.prop).split(",")
root = tempfile.mkdtemp(prefix="vfseed_")
outd = tempfile.mkdtemp(prefix="vfseedout_")
res = {}
try:
    subprocess.check_call(["rsync", "-a", "--exclude", ".git", "--exclude", "tests/resources/1.200806927", "--exclude", "tests/resources/SELF-1.181223995", "--exclude", "tests/resources/BASIC-*", "--exclude", "__pycache__", "/repo/", root + "/"])
    subprocess.check_call(["patch", "-p1", "-s", "-d", root, "-i", os.path.join(dest, "patch.diff")])
    env = dict(os.environ, VERIF_REPO_ROOT=root, VERIF_OUT_DIR=outd)
    for c in checks:
        r = subprocess.run([os.path.join(VERIF, "check"), c, "--tier", a.tier, "--seed", a.seed], env=env, capture_output=True, text=True)
        lines = r.stdout.strip().splitlines()
        viol = [l for l in lines if l.startswith("VIOLATION")]
        res[c] = {"exit": r.returncode, "violations": [l.split(" rule=")[1][:160] if " rule=" in l else l[:160] for l in viol[:5]], "summary": lines[-1] if lines else r.stderr[-200:]}
        print(c, "exit=%d" % r.returncode, (lines[-1] if lines else "")[:140])
        for l in viol[:3]:
            print("    ", l[:200])
finally:
    shutil.rmtree(root, ignore_errors=True)
    shutil.rmtree(outd, ignore_errors=True)
mpath = os.path.join(dest, "meta.json")
meta = json.load(open(mpath))
meta.setdefault("checks_run", {}).update({"%s/%s/seed%s" % (c, a.tier, a.seed): v for c, v in res.items()})
json.dump(meta, open(mpath, "w"), indent=1)
