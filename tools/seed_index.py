#!/usr/bin/env python3
"""Regenerate seeded/INDEX.md from seeded/*/meta.json."""
import glob, json, os
V = os.path.dirname(os.path.dirname(os.path.abspath(__file__)))
rows = []
for mp in sorted(glob.glob(os.path.join(V, "seeded", "*", "meta.json"))):
    m = json.load(open(mp))
    d = os.path.basename(os.path.dirname(mp))
    runs = m.get("checks_run", {})
    caught = [k for k, v in runs.items() if v["exit"] == 1]
    missed = [k for k, v in runs.items() if v["exit"] != 1]
    rules = sorted({r.split("|")[0] for v in runs.values() for r in v["violations"]})
    rows.append((d, m.get("property"), (m.get("summary") or "")[:160].replace("|", "/"), (m.get("needs") or "")[:140].replace("|", "/"), ", ".join(caught) or "-", ", ".join(missed) or "-", ", ".join(rules)[:160]))
with open(os.path.join(V, "seeded", "INDEX.md"), "w") as f:
    f.write("# Independently seeded breaking changes\n\nEach directory holds `patch.diff` (against the pinned tree with the `fix:` commits), `demo.py` (fails with the patch, passes without), `meta.json`\n(the sub-agent's description, what the builder ran to confirm it, and the result of running checks against a scratch copy with the patch applied).\nThe sub-agents saw only the property text and a scratch worktree.\n\n| id | property | change | needs | caught by | run but silent | rules that fired |\n|---|---|---|---|---|---|---|\n")
    for r in rows:
        f.write("| " + " | ".join(str(x) for x in r) + " |\n")
print(len(rows), "entries")
