#!/usr/bin/env python3
"""Sensitivity tool: apply a textual mutation (or a patch file) to a scratch copy of the repository and run checks on it.

  tools/mut.py --checks C03,C04 --file flumine/x.py --old 'a' --new 'b'   [--tier quick]
  tools/mut.py --checks C03 --patch some.diff

The scratch copy lives under /tmp and is removed afterwards; evidence/replays of the run go to a temp dir,
never to /verif/evidence.
"""
import argparse, os, shutil, subprocess, sys, tempfile

ap = argparse.ArgumentParser()
ap.add_argument("--checks", required=True)
ap.add_argument("--file")
ap.add_argument("--old")
ap.add_argument("--new")
ap.add_argument("--patch")
ap.add_argument("--tier", default="quick")
ap.add_argument("--seed", default="0")
ap.add_argument("--keep", action="store_true")
a = ap.parse_args()
root = tempfile.mkdtemp(prefix="vfmut_")
out = tempfile.mkdtemp(prefix="vfmutout_")
try:
    subprocess.check_call(["rsync", "-a", "--exclude", ".git", "--exclude", "tests/resources/1.200806927", "--exclude", "tests/resources/SELF-1.181223995", "--exclude", "tests/resources/BASIC-*", "--exclude", "__pycache__", "/repo/", root + "/"])
    if a.patch:
        subprocess.check_call(["patch", "-p1", "-s", "-d", root, "-i", os.path.abspath(a.patch)])
    else:
        p = os.path.join(root, a.file)
        s = open(p).read()
        if s.count(a.old) != 1:
            print("MUTATION: old text occurs %d times" % s.count(a.old)); sys.exit(3)
        open(p, "w").write(s.replace(a.old, a.new))
    env = dict(os.environ, VERIF_REPO_ROOT=root, VERIF_OUT_DIR=out)
    verif = os.path.dirname(os.path.dirname(os.path.abspath(__file__)))
    for c in a.checks.split(","):
        r = subprocess.run([os.path.join(verif, "check"), c, "--tier", a.tier, "--seed", a.seed], env=env, capture_output=True, text=True)
        lines = r.stdout.strip().splitlines()
        viol = [l for l in lines if l.startswith("VIOLATION")]
        print("%s exit=%d %s" % (c, r.returncode, lines[-1] if lines else r.stderr[-300:]))
        for l in viol[:4]:
            print("   ", l[:220])
finally:
    if not a.keep:
        shutil.rmtree(root, ignore_errors=True)
    shutil.rmtree(out, ignore_errors=True)
