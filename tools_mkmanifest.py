import json,sys
sys.path.insert(0,'/verif')
props=[json.loads(l) for l in open('/verif/properties.jsonl')]
built=json.load(open('/verif/manifest_checks.json'))
checks=[]; na=[]
for p in props:
    pid=p['id']
    if pid in built:
        b=built[pid]
        checks.append({
          "property_id":pid,
          "quick_cmd":"./check %s --tier quick"%pid,
          "thorough_cmd":"./check %s --tier thorough"%pid,
          "evidence_file":"evidence/%s.json"%pid,
          "replay_cmd_template":"./check %s --replay {path}"%pid,
          "engine":"vf",
          "level_claimed":{"category":b["level"],"text":b["text"],"design_ref":"DESIGN.md section 2, %s"%pid},
          "level_note":b["note"],
          "technique":b["technique"]})
    else:
        na.append({"property_id":pid,"reason":"check not built yet (machinery under construction in this session); not a claim that runtime monitoring cannot decide it"})
m={"version":1,
 "setup_cmd":"/venv/bin/python -c \"import sys; sys.path.insert(0,'/repo'); import flumine, betfairlightweight; print('ok', flumine.__version__)\"",
 "hooks":{"guard":"FLUMINE_VERIF","enable":"no source hooks: every monitor wraps class attributes of the imported flumine package from the checker process (vf/simrun.py, vf/live.py); FLUMINE_VERIF=1 is set by vf/env.py for documentation only","baseline_off_cmd":"cd /repo && /venv/bin/python -m pytest -ra -q -p no:cacheprovider --timeout=900 --continue-on-collection-errors","source_commits":[],"add_only":True},
 "engines":[{"name":"vf","path":"vf/","serves_properties":[c["property_id"] for c in checks],"kind_free_text":"runtime monitoring: real flumine code driven by seeded hostile workloads (synthetic Betfair stream files, adversarial strategy scripts, live-exchange double, fault plans) with hooks recording events at the client boundaries and deterministic oracles deciding each property on the recorded trace"}],
 "checks":checks,
 "not_applicable":na,
 "notes":"Exit codes: 0 held on what was observed (KNOWN-FINDING lines allowed), 1 violated (VIOLATION line + replay file), 2 inconclusive (monitor minimum not reached / watchdog). Known findings: known_findings.json."}
json.dump(m,open('/verif/MANIFEST.json','w'),indent=1)
print(len(checks),"checks",len(na),"n/a")
